"""Valid-argument generators for the public constructors of highdicom (seg, pm, sc, sr, ko, ann, pr, legacy).

Each `subject_*` function takes (r: random.Random, nr: numpy Generator) and returns a dict

    {'name': str, 'variant': hashable, 'call': callable(**inputs) -> object, 'inputs': {argname: object}}

`inputs` holds every argument the caller hands over that is an array, a dataset, a sequence or a list of those
(the things a constructor could alter); scalars are closed over by `call`.  Call `hd_env.setup()` first.
Shared, additive: used by C20 (input snapshots, strict write); other properties may reuse the subjects.
"""
from __future__ import annotations

import numpy as np

from gen import sources


def _ids(r):
    import highdicom as hd
    return dict(series_instance_uid=hd.UID(), series_number=r.randint(1, 99), sop_instance_uid=hd.UID(),
                instance_number=r.randint(1, 99))


def _equip():
    return dict(manufacturer='verif', manufacturer_model_name='model', software_versions='1.0', device_serial_number='sn1')


def layout(arr, how):
    """The same values in a different memory layout (the library may skip a defensive copy depending on it)."""
    if how == 'c':
        return np.ascontiguousarray(arr)
    if how == 'f':
        return np.asfortranarray(arr)
    if how == 'view':           # non-contiguous view into a larger buffer
        big = np.zeros(tuple(2 * s for s in arr.shape), dtype=arr.dtype)
        sl = tuple(slice(0, 2 * s, 2) for s in arr.shape)
        big[sl] = arr
        return big[sl]
    if how == 'readonly':
        a = np.ascontiguousarray(arr).copy()
        a.flags.writeable = False
        return a
    raise ValueError(how)


LAYOUTS = ['c', 'c', 'f', 'view', 'readonly']


# ------------------------------------------------------------------------------------------ segmentation
def subject_seg(r, nr):
    import highdicom as hd
    from highdicom.seg import SegmentationTypeValues as ST
    kind = r.choice(['series', 'series', 'enhanced', 'single', 'slide', 'slide_tiled'])
    rows, cols = r.randint(2, 6), r.randint(2, 7)
    n = r.randint(1, 4)
    if kind == 'series':
        src = sources.ct_series(n, rows, cols)
        shape = (n, rows, cols)
    elif kind == 'enhanced':
        src = [sources.enhanced_multiframe(n, rows, cols)]
        shape = (n, rows, cols)
    elif kind == 'single':
        src = [sources.single_image_no_for(rows, cols)]
        n = 1
        shape = (1, rows, cols)
    elif kind == 'slide':
        tr, tc = r.randint(2, 4), r.randint(2, 4)
        ds, _ = sources.slide_image(tr * r.randint(1, 2), tc * r.randint(1, 3), tr, tc, tiled_full=r.random() < 0.5)
        src = [ds]
        n = int(ds.NumberOfFrames)
        rows, cols = tr, tc
        shape = (n, rows, cols)
    else:
        tr, tc = r.randint(2, 4), r.randint(2, 4)
        ds, tpm = sources.slide_image(tr * r.randint(1, 2) + r.randint(0, 1), tc * r.randint(1, 3), tr, tc,
                                      tiled_full=r.random() < 0.5)
        src = [ds]
        shape = (1, int(ds.TotalPixelMatrixRows), int(ds.TotalPixelMatrixColumns))
    nseg = r.choice([1, 1, 2, 3])
    styp = r.choice([ST.BINARY, ST.FRACTIONAL, ST.FRACTIONAL, ST.LABELMAP])
    dtype = r.choice(['bool', 'uint8', 'uint8', 'uint16', 'float32', 'float64'])
    stacked = r.random() < 0.5           # 4-D (one channel per segment) or label-map style 3-D
    if dtype == 'bool' and nseg > 1:
        stacked = True
    if dtype.startswith('float'):
        if styp == ST.FRACTIONAL and r.random() < 0.6:
            vals = nr.integers(0, 5, size=shape + (nseg,)) / 4.0
        else:
            vals = (nr.random(shape + (nseg,)) < 0.4).astype(float)
        if nseg > 1 and styp != ST.FRACTIONAL:
            # non-overlapping
            arg = nr.integers(0, nseg + 1, size=shape)
            vals = np.stack([(arg == k + 1) for k in range(nseg)], axis=-1).astype(float)
        arr = vals.astype(dtype)
        if nseg == 1 and not stacked:
            arr = arr[..., 0]
    else:
        if stacked:
            if styp == ST.LABELMAP or r.random() < 0.5:
                arg = nr.integers(0, nseg + 1, size=shape)
                arr = np.stack([(arg == k + 1) for k in range(nseg)], axis=-1)
            else:
                arr = nr.random(shape + (nseg,)) < 0.4
            arr = arr.astype(dtype)
        else:
            arr = nr.integers(0, nseg + 1, size=shape).astype(dtype)
            for k in range(1, nseg + 1):     # every described segment may be absent; fine
                pass
    how = r.choice(LAYOUTS)
    arr = layout(arr, how)
    if kind == 'single' and r.random() < 0.5 and arr.ndim == 3:
        arr = arr[0]                        # 2-D input
    descs = [sources.seg_description(k + 1, tracking=r.random() < 0.3) for k in range(nseg)]
    kw = dict(_ids(r), **_equip())
    if styp == ST.FRACTIONAL:
        kw['max_fractional_value'] = r.choice([255, 255, 1, 100])
    if kind == 'slide_tiled':
        kw['tile_pixel_array'] = True
        if r.random() < 0.5:
            kw['tile_size'] = (r.randint(2, 4), r.randint(2, 4))
    if r.random() < 0.3:
        kw['omit_empty_frames'] = False
    if r.random() < 0.3 and kind in ('series', 'enhanced'):
        from pydicom.uid import RLELossless, ExplicitVRLittleEndian
        kw['transfer_syntax_uid'] = r.choice([ExplicitVRLittleEndian, RLELossless] if styp != ST.BINARY else [ExplicitVRLittleEndian])

    def call(source_images, pixel_array, segment_descriptions):
        return hd.seg.Segmentation(source_images, pixel_array, styp, segment_descriptions, **kw)
    return {'name': 'seg.Segmentation', 'variant': (kind, styp.value, dtype, stacked, arr.ndim, how, nseg > 1,
                                                     kw.get('max_fractional_value')),
            'call': call, 'inputs': {'source_images': src, 'pixel_array': arr, 'segment_descriptions': descs}}


def subject_seg_volume(r, nr):
    """Segmentation from a hd.Volume (array owned by the volume)."""
    import highdicom as hd
    from highdicom.seg import SegmentationTypeValues as ST
    rows, cols, n = r.randint(2, 5), r.randint(2, 5), r.randint(1, 4)
    src = sources.ct_series(n, rows, cols)
    vol = hd.get_volume_from_series(src)
    styp = r.choice([ST.BINARY, ST.FRACTIONAL, ST.LABELMAP])
    dtype = r.choice(['uint8', 'bool', 'float32']) if styp == ST.FRACTIONAL else r.choice(['uint8', 'bool'])
    mask = (nr.random((n, rows, cols)) < 0.5).astype(dtype)
    mvol = vol.with_array(layout(mask, r.choice(['c', 'f'])))
    kw = dict(_ids(r), **_equip())
    if styp == ST.FRACTIONAL:
        kw['max_fractional_value'] = r.choice([255, 1, 17])
    descs = [sources.seg_description(1)]

    def call(source_images, pixel_array, segment_descriptions):
        return hd.seg.Segmentation(source_images, pixel_array, styp, segment_descriptions, **kw)
    return {'name': 'seg.Segmentation(volume)', 'variant': (styp.value, dtype, kw.get('max_fractional_value')),
            'call': call, 'inputs': {'source_images': src, 'pixel_array': mvol, 'segment_descriptions': descs}}


# ------------------------------------------------------------------------------------------ parametric map
def subject_pm(r, nr):
    import highdicom as hd
    from pydicom.sr.codedict import codes
    kind = r.choice(['series', 'enhanced', 'slide'])
    rows, cols, n = r.randint(2, 6), r.randint(2, 6), r.randint(1, 3)
    if kind == 'series':
        src = sources.ct_series(n, rows, cols)
    elif kind == 'enhanced':
        src = [sources.enhanced_multiframe(n, rows, cols)]
    else:
        ds, _ = sources.slide_image(rows * 2, cols, rows, cols)
        src = [ds]
        n = int(ds.NumberOfFrames)
    dtype = r.choice(['uint8', 'uint16', 'float32', 'float64', 'uint16'])
    nmaps = r.choice([1, 1, 2])
    shape = (n, rows, cols) + ((nmaps,) if nmaps > 1 or r.random() < 0.5 else ())
    if dtype.startswith('float'):
        arr = (nr.integers(-64, 64, size=shape) / 8.0).astype(dtype)
    else:
        arr = nr.integers(0, 200, size=shape).astype(dtype)
    how = r.choice(LAYOUTS)
    arr = layout(arr, how)
    maps = []
    for k in range(arr.shape[3] if arr.ndim == 4 else 1):
        if dtype.startswith('float'):
            maps.append(hd.pm.RealWorldValueMapping(lut_label=f'm{k}', lut_explanation='feature', unit=codes.UCUM.NoUnits,
                                                    value_range=(-100.0, 100.0), intercept=0, slope=1))
        elif r.random() < 0.5:
            maps.append(hd.pm.RealWorldValueMapping(lut_label=f'm{k}', lut_explanation='feature', unit=codes.UCUM.NoUnits,
                                                    value_range=(0, 255), intercept=r.choice([0, 1.5]), slope=r.choice([1, 2.0])))
        else:
            maps.append(hd.pm.RealWorldValueMapping(lut_label=f'm{k}', lut_explanation='feature', unit=codes.UCUM.NoUnits,
                                                    value_range=(0, 255), lut_data=[float(v) * 0.5 for v in range(256)]))
    rwvm = [maps] if r.random() < 0.2 and len(maps) > 0 else maps
    if rwvm is not maps:
        rwvm = [[m] for m in maps]
    kw = dict(_ids(r), **_equip())

    def call(source_images, pixel_array, real_world_value_mappings):
        return hd.pm.ParametricMap(source_images, pixel_array, contains_recognizable_visual_features=False,
                                   real_world_value_mappings=real_world_value_mappings, window_center=100, window_width=200,
                                   **kw)
    return {'name': 'pm.ParametricMap', 'variant': (kind, dtype, arr.ndim, how, nmaps),
            'call': call, 'inputs': {'source_images': src, 'pixel_array': arr, 'real_world_value_mappings': rwvm}}


# ------------------------------------------------------------------------------------------ secondary capture
def subject_sc(r, nr):
    import highdicom as hd
    rows, cols = r.randint(2, 6), r.randint(2, 6)
    color = r.random() < 0.4
    bits = 8 if color else r.choice([8, 16])
    shape = (rows, cols, 3) if color else (rows, cols)
    arr = nr.integers(0, 2 ** bits - 1, size=shape).astype({8: np.uint8, 16: np.uint16}[bits])
    how = r.choice(LAYOUTS)
    arr = layout(arr, how)
    from_ref = r.random() < 0.5
    ids = _ids(r)
    if from_ref:
        ref = sources.ct_series(1, rows, cols)[0]

        def call(pixel_array, ref_dataset):
            return hd.sc.SCImage.from_ref_dataset(
                ref_dataset=ref_dataset, pixel_array=pixel_array,
                photometric_interpretation='RGB' if color else 'MONOCHROME2', bits_allocated=bits,
                coordinate_system='PATIENT', manufacturer='verif', patient_orientation=['L', 'P'], **ids)
        return {'name': 'sc.SCImage.from_ref_dataset', 'variant': (color, bits, how), 'call': call,
                'inputs': {'pixel_array': arr, 'ref_dataset': ref}}

    def call(pixel_array):
        return hd.sc.SCImage(pixel_array=pixel_array, photometric_interpretation='RGB' if color else 'MONOCHROME2',
                             bits_allocated=bits, coordinate_system='PATIENT', study_instance_uid=hd.UID(),
                             manufacturer='verif', patient_id='p', patient_name='Doe^J', patient_orientation=['L', 'P'],
                             pixel_spacing=(0.5, 0.5) if r.random() < 0.5 else None, **ids)
    return {'name': 'sc.SCImage', 'variant': (color, bits, how), 'call': call, 'inputs': {'pixel_array': arr}}
