"""Valid-argument generators for the public constructors of highdicom (seg, pm, sc, sr, ko, ann, pr, legacy).

Each `subject_*` function takes (r: random.Random, nr: numpy Generator) and returns a dict

    {'name': str, 'variant': hashable, 'call': callable(**inputs) -> object, 'inputs': {argname: object}}

`inputs` holds every argument the caller hands over that is an array, a dataset, a sequence or a list of those
(the things a constructor could alter); scalars are closed over by `call`.  Call `hd_env.setup()` first.
Shared, additive: used by C20 (input snapshots, strict write); other properties may reuse the subjects.
"""
from __future__ import annotations

import numpy as np

from gen import sources


GIVEN_UIDS = []      # identifiers created by the generator (i.e. supplied by the caller) since the last reset


def new_uid():
    """an identifier the *caller* supplies; remembered so that a check can tell it from one the library generated"""
    import highdicom as hd
    u = hd.UID()
    GIVEN_UIDS.append(str(u))
    return u


def _ids(r):
    return dict(series_instance_uid=new_uid(), series_number=r.randint(1, 99), sop_instance_uid=new_uid(),
                instance_number=r.randint(1, 99))


def _equip():
    return dict(manufacturer='verif', manufacturer_model_name='model', software_versions='1.0', device_serial_number='sn1')


NON_LATIN1 = False      # set by a check that knows the open finding about text outside ISO 8859-1 (C20-non-latin1-text-unwritable)


def text(r, limit=64):
    """(free text for an LO / ST argument, its class): ASCII, at the length limit, Latin-1, or (only if enabled) beyond Latin-1"""
    k = r.random()
    if k < 0.55:
        return 'description ' + str(r.randint(0, 999)), 'ascii'
    if k < 0.7:
        return ''.join(r.choice('abc XYZ-_.,()/') for _ in range(limit)).strip() or 'x', 'limit'
    if k < 0.9 or not NON_LATIN1:
        return r.choice(['Größe é', 'señor ñ', 'crème brûlée', 'ÅÆØ']), 'latin1'
    return r.choice(['中文', 'Ωμέγα', 'тест']), 'non-latin1'


def layout(arr, how):
    """The same values in a different memory layout (the library may skip a defensive copy depending on it)."""
    if how == 'c':
        return np.ascontiguousarray(arr)
    if how == 'f':
        return np.asfortranarray(arr)
    if how == 'transposed':      # a transposed view of a C-contiguous buffer (reversed axis order in memory)
        return np.ascontiguousarray(arr.transpose()).transpose()
    if how == 'view':           # strided (non-contiguous) view into a larger buffer
        big = np.zeros(tuple(2 * s for s in arr.shape), dtype=arr.dtype)
        sl = tuple(slice(0, 2 * s, 2) for s in arr.shape)
        big[sl] = arr
        return big[sl]
    if how == 'negstride':      # negative strides along every axis
        rev = tuple(slice(None, None, -1) for _ in arr.shape)
        return np.ascontiguousarray(arr[rev])[rev]
    if how == 'readonly':
        a = np.ascontiguousarray(arr).copy()
        a.flags.writeable = False
        return a
    if how == 'bigendian':      # C-contiguous, but stored in the byte order that is not the file's (and rarely the machine's)
        a = np.ascontiguousarray(arr)
        return a.astype(a.dtype.newbyteorder('>')) if a.dtype.itemsize > 1 else a.copy()
    if how == 'readonly_view':  # read-only and non-contiguous
        a = layout(arr, 'view')
        a.flags.writeable = False
        return a
    raise ValueError(how)


def awkward_geometry(series, r):
    """rewrite the geometry of a single-frame series with non-terminating decimals, stored as the valid 16-character decimal
    strings a file would hold (values the library has to re-format when it derives positions / spacings from them)"""
    from pydicom.valuerep import DS
    t = r.choice([1.0 / 3.0, 1.0 / 7.0, 0.1 + 0.2])
    ori = r.choice([(0.6, 0.8, 0.0, -0.8, 0.6, 0.0), (1.0, 0.0, 0.0, 0.0, 0.0, -1.0)])
    o = np.array(ori, dtype=float)
    normal = np.cross(o[:3], o[3:])
    for i, d in enumerate(series):
        pos = np.array([t, -t, 0.0]) + i * t * normal
        d.ImagePositionPatient = [DS(float(v), auto_format=True) for v in pos]
        d.PixelSpacing = [DS(t, auto_format=True), DS(t / 2, auto_format=True)]
        d.ImageOrientationPatient = [DS(float(v), auto_format=True) for v in ori]
        d.SliceThickness = DS(t, auto_format=True)
    return series


LAYOUTS = ['c', 'c', 'f', 'transposed', 'view', 'negstride', 'readonly', 'readonly', 'readonly_view', 'bigendian']


def num(r, x):
    """a number for a DS / FD / FL valued argument: as given, or one whose shortest repr has 17-19 characters (1/3, 0.1+0.2,
    1000/3, 3e-7-like, large magnitude)"""
    k = r.random()
    if k < 0.45:
        return float(x)
    if k < 0.6:
        return float(x) + 1.0 / 3.0
    if k < 0.7:
        return float(x) + (0.1 + 0.2)
    if k < 0.8:
        return float(x) * (1.0 + 2.0 ** -30) + 1e-7 * 3
    if k < 0.9:
        return float(x) + 1000.0 / 3.0
    return float(x) * 1.0e6 + 1.0 / 3.0


def awkward_geometry(series, r):
    """rewrite the geometry of a single-frame series with non-terminating decimals, stored as the valid 16-character decimal
    strings a file would hold (values the library has to re-format when it derives positions / spacings from them)"""
    from pydicom.valuerep import DS
    t = r.choice([1.0 / 3.0, 1.0 / 7.0, 0.1 + 0.2])
    ori = r.choice([(0.6, 0.8, 0.0, -0.8, 0.6, 0.0), (1.0, 0.0, 0.0, 0.0, 0.0, -1.0)])
    o = np.array(ori, dtype=float)
    normal = np.cross(o[:3], o[3:])
    for i, d in enumerate(series):
        pos = np.array([t, -t, 0.0]) + i * t * normal
        d.ImagePositionPatient = [DS(float(v), auto_format=True) for v in pos]
        d.PixelSpacing = [DS(t, auto_format=True), DS(t / 2, auto_format=True)]
        d.ImageOrientationPatient = [DS(float(v), auto_format=True) for v in ori]
        d.SliceThickness = DS(t, auto_format=True)
    return series


LAYOUTS = ['c', 'c', 'f', 'transposed', 'view', 'negstride', 'readonly', 'readonly', 'readonly_view', 'bigendian']


def fnum(r, x):
    """`num` for parameters that are documented (and checked) to be `float`: window centers / widths, rescale parameters"""
    v = num(r, x)
    return v if isinstance(v, float) else float(v)


NUM_TYPES = {}      # histogram of the scalar types drawn by `num` (read by the harness)


def num(r, x):
    """a number for a DS / FD / FL valued argument: as given, or perturbed so that its repr has 17-18 significant digits - as a
    Python float or as a numpy scalar (np.float64, np.float32 - whose `str` is short although `float(v)` has 17 digits, e.g.
    np.float32(10.1) - and, for whole numbers, np.int32 / np.int64 / int)"""
    k = r.random()
    if k < 0.5:
        v = float(x)
    elif k < 0.75:
        v = float(x) + 1.0 / 3.0
    else:
        v = float(x) * (1.0 + 2.0 ** -30) + 1e-7
    t = r.random()
    if t < 0.55:
        out = v
    elif t < 0.7:
        out = np.float64(v)
    elif t < 0.9:
        out = np.float32(round(v, 1) + 0.1) if k < 0.5 else np.float32(v)     # x.1 values: short str, long float()
    elif float(x) == int(x) and k < 0.5:
        out = r.choice([np.int32, np.int64, int])(int(x))
    else:
        out = v
    NUM_TYPES[type(out).__name__] = NUM_TYPES.get(type(out).__name__, 0) + 1
    return out



# ------------------------------------------------------------------------------------------ segmentation
def subject_seg(r, nr):
    import highdicom as hd
    from highdicom.seg import SegmentationTypeValues as ST
    kind = r.choice(['series', 'series', 'enhanced', 'single', 'slide', 'slide_tiled'])
    rows, cols = r.randint(2, 6), r.randint(2, 7)
    n = r.randint(1, 4)
    if kind == 'series':
        src = sources.ct_series(n, rows, cols)
        if r.random() < 0.3:
            awkward_geometry(src, r)
        shape = (n, rows, cols)
    elif kind == 'enhanced':
        src = [sources.enhanced_multiframe(n, rows, cols)]
        shape = (n, rows, cols)
    elif kind == 'single':
        src = [sources.single_image_no_for(rows, cols)]
        n = 1
        shape = (1, rows, cols)
    elif kind == 'slide':
        tr, tc = r.randint(2, 4), r.randint(2, 4)
        ds, _ = sources.slide_image(tr * r.randint(1, 2), tc * r.randint(1, 3), tr, tc, tiled_full=r.random() < 0.5)
        src = [ds]
        n = int(ds.NumberOfFrames)
        rows, cols = tr, tc
        shape = (n, rows, cols)
    else:
        tr, tc = r.randint(2, 4), r.randint(2, 4)
        ds, tpm = sources.slide_image(tr * r.randint(1, 2) + r.randint(0, 1), tc * r.randint(1, 3), tr, tc,
                                      tiled_full=r.random() < 0.5)
        src = [ds]
        shape = (1, int(ds.TotalPixelMatrixRows), int(ds.TotalPixelMatrixColumns))
    nseg = r.choice([1, 1, 2, 3])
    styp = r.choice([ST.BINARY, ST.FRACTIONAL, ST.FRACTIONAL, ST.LABELMAP])
    dtype = r.choice(['bool', 'uint8', 'uint8', 'uint16', 'float32', 'float64'])
    stacked = r.random() < 0.5           # 4-D (one channel per segment) or label-map style 3-D
    if dtype == 'bool' and nseg > 1:
        stacked = True
    if dtype.startswith('float'):
        if styp == ST.FRACTIONAL and r.random() < 0.6:
            vals = nr.integers(0, 5, size=shape + (nseg,)) / 4.0
        else:
            vals = (nr.random(shape + (nseg,)) < 0.4).astype(float)
        if nseg > 1 and styp != ST.FRACTIONAL:
            # non-overlapping
            arg = nr.integers(0, nseg + 1, size=shape)
            vals = np.stack([(arg == k + 1) for k in range(nseg)], axis=-1).astype(float)
        arr = vals.astype(dtype)
        if nseg == 1 and not stacked:
            arr = arr[..., 0]
    else:
        if stacked:
            if styp == ST.LABELMAP or r.random() < 0.5:
                arg = nr.integers(0, nseg + 1, size=shape)
                arr = np.stack([(arg == k + 1) for k in range(nseg)], axis=-1)
            else:
                arr = nr.random(shape + (nseg,)) < 0.4
            arr = arr.astype(dtype)
        else:
            arr = nr.integers(0, nseg + 1, size=shape).astype(dtype)
            for k in range(1, nseg + 1):     # every described segment may be absent; fine
                pass
    how = r.choice(LAYOUTS)
    arr = layout(arr, how)
    if kind == 'single' and r.random() < 0.5 and arr.ndim == 3:
        arr = arr[0]                        # 2-D input
    descs = [sources.seg_description(k + 1, tracking=r.random() < 0.3) for k in range(nseg)]
    kw = dict(_ids(r), **_equip())
    inputs_extra = {}
    inputs_extra_donor = {}
    if kind == 'enhanced' and r.random() < 0.5:
        # a multi-frame source whose shared pixel measures carry no SpacingBetweenSlices (the library computes it)
        del src[0].SharedFunctionalGroupsSequence[0].PixelMeasuresSequence[0].SpacingBetweenSlices
    if kind in ('series', 'enhanced') and r.random() < 0.3:
        inputs_extra['pixel_measures'] = hd.PixelMeasuresSequence(
            pixel_spacing=(num(r, 1.0), num(r, 1.0)), slice_thickness=num(r, 1.0),
            spacing_between_slices=1.0 if r.random() < 0.4 else None)
    if styp == ST.FRACTIONAL:
        kw['max_fractional_value'] = r.choice([255, 255, 1, 100])
    if kind == 'slide_tiled':
        kw['tile_pixel_array'] = True
        if r.random() < 0.5:
            kw['tile_size'] = (r.randint(2, 4), r.randint(2, 4))
    if r.random() < 0.3:
        kw['omit_empty_frames'] = False
    txt, txt_class = text(r)
    if r.random() < 0.6:
        kw['series_description'] = txt
        kw['content_description'] = txt
    else:
        txt_class = None
    if r.random() < 0.3 and kind in ('series', 'enhanced'):
        from pydicom.uid import RLELossless, ExplicitVRLittleEndian
        kw['transfer_syntax_uid'] = r.choice([ExplicitVRLittleEndian, RLELossless] if styp != ST.BINARY else [ExplicitVRLittleEndian])

    # every accepted spelling: the enumeration member or its string value; a list or a tuple of source images / descriptions
    styp_arg = styp if r.random() < 0.5 else styp.value
    if r.random() < 0.3:
        src = tuple(src)
    form = r.choice(['list', 'list', 'tuple', 'sequence', 'donor', 'donor'])
    if form == 'tuple':
        descs = tuple(descs)
    elif form == 'sequence':
        from pydicom.sequence import Sequence as _Seq
        descs = _Seq(descs)
    elif form == 'donor':
        # the very SegmentSequence of another segmentation (re-encoding it): the donor is an argument too
        dsrc = sources.ct_series(1, 2, 2)
        dmask = np.zeros((1, 2, 2, nseg), np.uint8)
        dmask[0, 0, 0, :] = 1
        if nseg > 1:
            dmask[0, 0, 0, 1:] = 0
            for k in range(1, nseg):
                dmask[0, min(k, 1), k % 2, k] = 1
        donor = hd.seg.Segmentation(dsrc, dmask, ST.BINARY, descs, new_uid(), 1, new_uid(), 1, 'm', 'mm', '1', '1',
                                    omit_empty_frames=False)
        descs = donor.SegmentSequence
        inputs_extra_donor = {'donor_segmentation': donor}

    def call(source_images, pixel_array, segment_descriptions, donor_segmentation=None, **more):
        return hd.seg.Segmentation(source_images, pixel_array, styp_arg, segment_descriptions, **more, **kw)
    return {'name': 'seg.Segmentation', 'variant': (kind, styp.value, dtype, stacked, arr.ndim, how, nseg > 1,
                                                     kw.get('max_fractional_value'), tuple(sorted(inputs_extra)), txt_class),
            'text_class': txt_class, 'call': call, 'inputs': {'source_images': src, 'pixel_array': arr, 'segment_descriptions': descs, **inputs_extra}}


def subject_seg_volume(r, nr):
    """Segmentation from a hd.Volume (array owned by the volume)."""
    import highdicom as hd
    from highdicom.seg import SegmentationTypeValues as ST
    rows, cols, n = r.randint(2, 5), r.randint(2, 5), r.randint(1, 4)
    src = sources.ct_series(n, rows, cols)
    vol = hd.get_volume_from_series(src)
    styp = r.choice([ST.BINARY, ST.FRACTIONAL, ST.LABELMAP])
    dtype = r.choice(['uint8', 'bool', 'float32']) if styp == ST.FRACTIONAL else r.choice(['uint8', 'bool'])
    mask = (nr.random((n, rows, cols)) < 0.5).astype(dtype)
    mvol = vol.with_array(layout(mask, r.choice(['c', 'f', 'transposed', 'readonly'])))
    kw = dict(_ids(r), **_equip())
    if styp == ST.FRACTIONAL:
        kw['max_fractional_value'] = r.choice([255, 1, 17])
    descs = [sources.seg_description(1)]

    def call(source_images, pixel_array, segment_descriptions):
        return hd.seg.Segmentation(source_images, pixel_array, styp, segment_descriptions, **kw)
    return {'name': 'seg.Segmentation(volume)', 'variant': (styp.value, dtype, kw.get('max_fractional_value')),
            'call': call, 'inputs': {'source_images': src, 'pixel_array': mvol, 'segment_descriptions': descs}}


# ------------------------------------------------------------------------------------------ parametric map
def subject_pm(r, nr):
    import highdicom as hd
    from pydicom.sr.codedict import codes
    kind = r.choice(['series', 'enhanced', 'slide'])
    rows, cols, n = r.randint(2, 6), r.randint(2, 6), r.randint(1, 3)
    explicit_positions = None
    if kind == 'series':
        src = sources.ct_series(n, rows, cols)
        if r.random() < 0.3:
            awkward_geometry(src, r)
    elif kind == 'enhanced':
        src = [sources.enhanced_multiframe(n, rows, cols)]
    else:
        ds, _ = sources.slide_image(rows * 2, cols, rows, cols)
        src = [ds]
        n = int(ds.NumberOfFrames)
        if r.random() < 0.5:
            # plane positions that differ from the source's (the total pixel matrix origin is then recomputed)
            explicit_positions = [hd.PlanePositionSequence(
                hd.CoordinateSystemNames.SLIDE, image_position=(num(r, 1.0 + k), num(r, 2.0), 0.0),
                pixel_matrix_position=(1, 1 + rows * k)) for k in range(n)]
    dtype = r.choice(['uint8', 'uint16', 'float32', 'float64', 'uint16'])
    nmaps = r.choice([1, 1, 2])
    shape = (n, rows, cols) + ((nmaps,) if nmaps > 1 or r.random() < 0.5 else ())
    if dtype.startswith('float'):
        arr = (nr.integers(-64, 64, size=shape) / 8.0).astype(dtype)
    else:
        arr = nr.integers(0, 200, size=shape).astype(dtype)
    how = r.choice(LAYOUTS)
    arr = layout(arr, how)
    maps = []
    for k in range(arr.shape[3] if arr.ndim == 4 else 1):
        if dtype.startswith('float'):
            maps.append(hd.pm.RealWorldValueMapping(lut_label=f'm{k}', lut_explanation='feature', unit=codes.UCUM.NoUnits,
                                                    value_range=(-100.0, 100.0), intercept=0, slope=1))
        elif r.random() < 0.5:
            maps.append(hd.pm.RealWorldValueMapping(lut_label=f'm{k}', lut_explanation='feature', unit=codes.UCUM.NoUnits,
                                                    value_range=(0, 255), intercept=fnum(r, 1.5), slope=fnum(r, 2.0)))
        else:
            maps.append(hd.pm.RealWorldValueMapping(lut_label=f'm{k}', lut_explanation='feature', unit=codes.UCUM.NoUnits,
                                                    value_range=(0, 255), lut_data=[float(v) * 0.5 for v in range(256)]))
    # 2-D / 3-D arrays take a flat list (all mappings apply to the one channel), 4-D arrays one list per channel
    rwvm = [[m] for m in maps] if arr.ndim == 4 else maps
    kw = dict(_ids(r), **_equip())
    wc, ww = fnum(r, 100), fnum(r, 200)

    more = {'plane_positions': explicit_positions} if explicit_positions is not None else {}

    def call(source_images, pixel_array, real_world_value_mappings, **extra):
        return hd.pm.ParametricMap(source_images, pixel_array, contains_recognizable_visual_features=False,
                                   real_world_value_mappings=real_world_value_mappings, window_center=wc, window_width=ww,
                                   **extra, **kw)
    return {'name': 'pm.ParametricMap', 'variant': (kind, dtype, arr.ndim, how, nmaps, explicit_positions is not None),
            'call': call, 'inputs': {'source_images': src, 'pixel_array': arr, 'real_world_value_mappings': rwvm, **more}}


# ------------------------------------------------------------------------------------------ secondary capture
def subject_sc(r, nr):
    import highdicom as hd
    rows, cols = r.randint(2, 6), r.randint(2, 6)
    color = r.random() < 0.4
    bits = 8 if color else r.choice([8, 16])
    shape = (rows, cols, 3) if color else (rows, cols)
    arr = nr.integers(0, 2 ** bits - 1, size=shape).astype({8: np.uint8, 16: np.uint16}[bits])
    how = r.choice(LAYOUTS)
    arr = layout(arr, how)
    from_ref = r.random() < 0.5
    ids = _ids(r)
    if from_ref:
        ref = sources.ct_series(1, rows, cols)[0]

        def call(pixel_array, ref_dataset):
            return hd.sc.SCImage.from_ref_dataset(
                ref_dataset=ref_dataset, pixel_array=pixel_array,
                photometric_interpretation='RGB' if color else 'MONOCHROME2', bits_allocated=bits,
                coordinate_system='PATIENT', manufacturer='verif', patient_orientation=['L', 'P'], **ids)
        return {'name': 'sc.SCImage.from_ref_dataset', 'variant': (color, bits, how), 'call': call,
                'inputs': {'pixel_array': arr, 'ref_dataset': ref}}

    spacing = (num(r, 0.5), num(r, 0.5)) if r.random() < 0.5 else None
    if spacing is not None:
        spacing = r.choice([tuple, list, np.array])(spacing)        # tuple, list or ndarray

    def call(pixel_array):
        return hd.sc.SCImage(pixel_array=pixel_array, photometric_interpretation='RGB' if color else 'MONOCHROME2',
                             bits_allocated=bits, coordinate_system='PATIENT', study_instance_uid=new_uid(),
                             manufacturer='verif', patient_id='p', patient_name='Doe^J', patient_orientation=['L', 'P'],
                             pixel_spacing=spacing, **ids)
    return {'name': 'sc.SCImage', 'variant': (color, bits, how), 'call': call, 'inputs': {'pixel_array': arr}}


# ------------------------------------------------------------------------------------------ structured reports
def _measurement_report(r, nr, src, use_3d, want_groups=False):
    """A TID 1500 measurement report touching many content-item classes."""
    import highdicom as hd
    from highdicom import sr
    from pydicom.sr.codedict import codes
    observer_person = sr.ObserverContext(
        observer_type=codes.DCM.Person,
        observer_identifying_attributes=sr.PersonObserverIdentifyingAttributes(name='Bar^Foo'))
    observer_device = sr.ObserverContext(
        observer_type=codes.DCM.Device,
        observer_identifying_attributes=sr.DeviceObserverIdentifyingAttributes(uid=new_uid()))
    ctx = sr.ObservationContext(observer_person_context=observer_person, observer_device_context=observer_device)
    img = src[0]
    groups = []
    for g in range(r.randint(1, 3)):
        pts = nr.integers(1, 4, size=(4, 3 if use_3d else 2)).astype(np.float64)
        if r.random() < 0.5:
            pts = pts / 3.0                 # not representable in the 32-bit floats GraphicData is stored in
        if use_3d:
            pts[:, 2] = pts[0, 2]            # a 3-D polygon must be planar
        pts = np.vstack([pts, pts[:1]])
        if use_3d:
            region = sr.ImageRegion3D(graphic_type=sr.GraphicTypeValues3D.POLYGON, graphic_data=pts,
                                      frame_of_reference_uid=img.FrameOfReferenceUID)
        else:
            region = sr.ImageRegion(graphic_type=sr.GraphicTypeValues.POLYLINE, graphic_data=pts,
                                    source_image=sr.SourceImageForRegion.from_source_image(img))
        meas = [sr.Measurement(name=codes.SCT.AreaOfDefinedRegion, value=float(num(r, float(r.randint(1, 99)) / 4)),   # (Measurement documents int / float only)
                               unit=codes.UCUM.SquareMillimeter,
                               tracking_identifier=sr.TrackingIdentifier(uid=new_uid()),
                               properties=sr.MeasurementProperties(
                                   normality=sr.CodedConcept(value='17621005', meaning='Normal', scheme_designator='SCT'),
                                   level_of_significance=codes.SCT.NotSignificant))]
        evals = [sr.QualitativeEvaluation(name=codes.DCM.LevelOfSignificance, value=codes.SCT.NotSignificant)]
        kind = r.choice(['planar', 'planar', 'volumetric', 'group'])
        if kind == 'planar':
            groups.append(sr.PlanarROIMeasurementsAndQualitativeEvaluations(
                tracking_identifier=sr.TrackingIdentifier(uid=new_uid(), identifier=f'roi {g}'),
                referenced_region=region, finding_type=codes.SCT.SpinalCord, measurements=meas,
                qualitative_evaluations=evals,
                finding_sites=[sr.FindingSite(anatomic_location=codes.SCT.CervicoThoracicSpine,
                                              topographical_modifier=codes.SCT.VertebralForamen)]))
        elif kind == 'volumetric' and not use_3d:
            groups.append(sr.VolumetricROIMeasurementsAndQualitativeEvaluations(
                tracking_identifier=sr.TrackingIdentifier(uid=new_uid(), identifier=f'vol {g}'),
                referenced_regions=[region], finding_type=codes.SCT.SpinalCord, measurements=meas))
        else:
            groups.append(sr.MeasurementsAndQualitativeEvaluations(
                tracking_identifier=sr.TrackingIdentifier(uid=new_uid(), identifier=f'grp {g}'),
                measurements=meas, qualitative_evaluations=evals))
    if want_groups:
        return groups
    kinds = {type(g).__name__ for g in groups}
    if len(kinds) > 1:      # a report holds groups of one template only
        groups = [g for g in groups if type(g).__name__ == type(groups[0]).__name__]
    return sr.MeasurementReport(observation_context=ctx, procedure_reported=codes.LN.CTUnspecifiedBodyRegion,
                                imaging_measurements=groups)


def subject_sr(r, nr):
    import highdicom as hd
    from pydicom.sr.codedict import codes
    src = sources.ct_series(r.randint(1, 3), 4, 4)
    which = r.choice(['EnhancedSR', 'ComprehensiveSR', 'Comprehensive3DSR'])
    report = _measurement_report(r, nr, src, use_3d=(which == 'Comprehensive3DSR' and r.random() < 0.7))
    cls = getattr(hd.sr, which)
    ids = _ids(r)
    opt = {}
    txt, txt_class = text(r)
    if r.random() < 0.5:
        opt.update(institution_name=txt, institutional_department_name='dept')
    else:
        txt_class = None
    if r.random() < 0.4:
        opt.update(is_verified=True, verifying_observer_name='Doe^John', verifying_organization='org')
    if r.random() < 0.4:
        opt.update(performed_procedure_codes=[codes.LN.CTUnspecifiedBodyRegion])
    record = r.random() < 0.5

    def call(evidence, content):
        return cls(evidence=evidence, content=content, manufacturer='verif', record_evidence=record, **ids, **opt)
    return {'name': 'sr.' + which, 'variant': (which, tuple(sorted(opt)), record, len(report[0].ContentSequence), txt_class),
            'text_class': txt_class, 'call': call, 'inputs': {'evidence': src, 'content': report[0]}}


def subject_ko(r, nr):
    import highdicom as hd
    from pydicom.sr.codedict import codes
    src = sources.ct_series(r.randint(1, 3), 3, 3)
    content = hd.ko.KeyObjectSelection(document_title=codes.DCM.Manifest, referenced_objects=src,
                                       description='selection' if r.random() < 0.5 else None)
    ids = _ids(r)

    def call(evidence, content):
        return hd.ko.KeyObjectSelectionDocument(evidence=evidence, content=content, manufacturer='verif', **ids)
    return {'name': 'ko.KeyObjectSelectionDocument', 'variant': (len(src),), 'call': call,
            'inputs': {'evidence': src, 'content': content}}


# ------------------------------------------------------------------------------------------ bulk annotations
def subject_ann(r, nr):
    import highdicom as hd
    from pydicom.sr.codedict import codes
    ds, _ = sources.slide_image(8, 8, 4, 4)
    coord3d = r.random() < 0.5
    gtype = r.choice(['POINT', 'POLYGON', 'RECTANGLE', 'ELLIPSE', 'POLYLINE'])
    n = r.randint(1, 4)
    dim = 3 if coord3d else 2
    how = r.choice(LAYOUTS)
    long_fractions = r.random() < 0.5
    data = []
    for _ in range(n):
        npts = {'POINT': 1, 'RECTANGLE': 4, 'ELLIPSE': 4}.get(gtype, r.randint(3, 5))
        if gtype == 'RECTANGLE':
            x0, y0 = nr.integers(1, 4, size=2).astype(float)
            pts = np.array([[x0, y0], [x0 + 2, y0], [x0 + 2, y0 + 1], [x0, y0 + 1]])
        else:
            pts = nr.integers(1, 7, size=(npts, 2)).astype(np.float64) + 0.5
            if long_fractions:      # coordinates as they come out of an algorithm: all 52 bits of the fraction in use
                pts = pts + nr.random(size=pts.shape) / 3
        if coord3d:
            pts = np.hstack([pts, np.zeros((pts.shape[0], 1))])
        data.append(layout(pts.astype(r.choice([np.float64, np.float32])), how))
    values = layout(nr.integers(0, 50, size=(n, 1)).astype(np.float64) / 2, r.choice(LAYOUTS))
    meas = [hd.ann.Measurements(name=codes.SCT.Area, unit=codes.UCUM.SquareMicrometer, values=values)] if r.random() < 0.6 else None
    ids = _ids(r)
    eq = _equip()
    uid = new_uid()

    def call(source_images, graphic_data, measurements):
        group = hd.ann.AnnotationGroup(
            number=1, uid=uid, label='first', annotated_property_category=codes.SCT.AnatomicalStructure,
            annotated_property_type=codes.SCT.Cell, graphic_type=hd.ann.GraphicTypeValues[gtype], graphic_data=graphic_data,
            algorithm_type=hd.ann.AnnotationGroupGenerationTypeValues.MANUAL, measurements=measurements,
            description='annotation')
        return hd.ann.MicroscopyBulkSimpleAnnotations(
            source_images=source_images,
            annotation_coordinate_type=hd.ann.AnnotationCoordinateTypeValues.SCOORD3D if coord3d
            else hd.ann.AnnotationCoordinateTypeValues.SCOORD,
            annotation_groups=[group], **ids, **eq)
    return {'name': 'ann.MicroscopyBulkSimpleAnnotations', 'variant': (coord3d, gtype, how, meas is not None, n, long_fractions),
            'call': call, 'inputs': {'source_images': [ds], 'graphic_data': data, 'measurements': meas}}


# ------------------------------------------------------------------------------------------ presentation states
def subject_pr(r, nr):
    import highdicom as hd
    from highdicom import pr
    from pydicom.sr.codedict import codes
    which = r.choice(['gsps', 'gsps', 'pseudo', 'color'])
    if which == 'color':
        ds, _ = sources.slide_image(4, 4, 4, 4, samples=3)
        import os
        icc = open(os.path.join(os.path.dirname(hd.__file__), '_icc_profiles', 'sRGB_v4_ICC_preference.icc'), 'rb').read()
        ds.OpticalPathSequence[0].ICCProfile = icc
        src = [ds]
    else:
        src = sources.ct_series(r.randint(1, 3), 4, 4)
        for d in src:
            d.RescaleIntercept = 0
            d.RescaleSlope = 1
            d.RescaleType = 'HU'
    how = r.choice(LAYOUTS)
    third = r.choice([1.0, 1.0 / 3.0])
    circle = layout(np.array([[2.0, 2.0], [3.0, 2.0]]) * third, how)
    layer = pr.GraphicLayer(layer_name='LAYER1', order=1, description='layer',
                            display_color=hd.color.CIELabColor(0.0, 127.0, 127.0))
    gobj = pr.GraphicObject(graphic_type=pr.GraphicTypeValues.CIRCLE, graphic_data=circle, units=pr.AnnotationUnitsValues.PIXEL)
    tobj = pr.TextObject(text_value='text', units=pr.AnnotationUnitsValues.PIXEL,
                         bounding_box=(1.0 * third, 1.0 * third, 3.0 * third, 3.0 * third),
                         anchor_point=(2.0 * third, 2.0 * third) if r.random() < 0.5 else None)
    ann = pr.GraphicAnnotation(referenced_images=src, graphic_layer=layer, graphic_objects=[gobj], text_objects=[tobj])
    ids = _ids(r)
    eq = _equip()
    inputs = {'referenced_images': src, 'graphic_layers': [layer], 'graphic_annotations': [ann]}
    extra = {}
    lut_arr = layout(np.arange(10, 266, dtype=np.uint16), r.choice(['c', 'readonly', 'view', 'negstride', 'readonly_view']))
    if which in ('gsps', 'pseudo'):
        if r.random() < 0.5:
            extra['modality_lut_transformation'] = hd.ModalityLUTTransformation(
                modality_lut=hd.ModalityLUT(lut_type=hd.RescaleTypeValues.HU, first_mapped_value=0, lut_data=lut_arr))
        elif r.random() < 0.5:
            extra['modality_lut_transformation'] = hd.ModalityLUTTransformation(
                rescale_intercept=fnum(r, -1024.0), rescale_slope=fnum(r, 2.0), rescale_type='HU')
        if r.random() < 0.6:
            if r.random() < 0.5:
                if r.random() < 0.5:
                    extra['voi_lut_transformations'] = [pr.SoftcopyVOILUTTransformation(
                        window_center=fnum(r, 40.0), window_width=fnum(r, 400.0))]
                else:       # several windows (lists / tuples of values)
                    mk = r.choice([list, tuple])
                    extra['voi_lut_transformations'] = [pr.SoftcopyVOILUTTransformation(
                        window_center=mk([fnum(r, 40.0), fnum(r, 50.0)]), window_width=mk([fnum(r, 400.0), fnum(r, 300.0)]),
                        window_explanation=mk(['soft', 'bone']))]
            else:
                extra['voi_lut_transformations'] = [pr.SoftcopyVOILUTTransformation(
                    voi_luts=[hd.VOILUT(first_mapped_value=0, lut_data=lut_arr, lut_explanation='voi')])]
    if which == 'gsps' and r.random() < 0.5:
        extra['presentation_lut_transformation'] = hd.PresentationLUTTransformation(
            presentation_lut=hd.PresentationLUT(first_mapped_value=0, lut_data=lut_arr)) if r.random() < 0.5 else \
            hd.PresentationLUTTransformation(presentation_lut_shape=hd.PresentationLUTShapeValues.INVERSE)
    if which == 'pseudo':
        bits = 16                             # presentation states demand 16-bit palette LUTs
        dt = np.uint16
        mk = lambda: layout(nr.integers(0, 2 ** bits - 1, size=256).astype(dt), r.choice(['c', 'readonly', 'view', 'negstride', 'readonly_view']))  # noqa: E731
        extra['palette_color_lut_transformation'] = hd.PaletteColorLUTTransformation(
            red_lut=hd.PaletteColorLUT(0, mk(), color='red'), green_lut=hd.PaletteColorLUT(0, mk(), color='green'),
            blue_lut=hd.PaletteColorLUT(0, mk(), color='blue'), palette_color_lut_uid=new_uid())
    inputs.update(extra)
    cls = {'gsps': pr.GrayscaleSoftcopyPresentationState, 'pseudo': pr.PseudoColorSoftcopyPresentationState,
           'color': pr.ColorSoftcopyPresentationState}[which]
    creator = r.random() < 0.5

    def call(**kw):
        return cls(content_label='LABEL', concept_name=codes.DCM.PresentationState,
                   content_creator_name='Doe^John' if creator else None, **kw, **ids, **eq)
    return {'name': 'pr.' + cls.__name__, 'variant': (which, tuple(sorted(extra)), how), 'call': call, 'inputs': inputs}


def subject_pr_multi(r, nr):
    """presentation states over (a) a multi-resolution pyramid of tiled images handed over in an order that is not sorted by
    size, (b) one multi-frame image with several VOI LUT items that each name their own frames"""
    import os
    import highdicom as hd
    from highdicom import pr
    ids = _ids(r)
    eq = _equip()
    if r.random() < 0.5:
        base, _ = sources.slide_image(6, 6, 2, 2, samples=3)
        icc = open(os.path.join(os.path.dirname(hd.__file__), '_icc_profiles', 'sRGB_v4_ICC_preference.icc'), 'rb').read()
        levels = [base]
        for k, size in enumerate([4, 2][:r.randint(1, 2)]):
            d, _ = sources.slide_image(size, size, 2, 2, samples=3)
            d.StudyInstanceUID = base.StudyInstanceUID
            d.SeriesInstanceUID = base.SeriesInstanceUID
            d.FrameOfReferenceUID = base.FrameOfReferenceUID
            d.PatientID = base.PatientID
            levels.append(d)
        for d in levels:
            d.OpticalPathSequence[0].ICCProfile = icc
        order = r.choice(['descending', 'shuffled'])
        if order == 'shuffled':
            r.shuffle(levels)

        def call(referenced_images):
            return pr.ColorSoftcopyPresentationState(referenced_images=referenced_images, content_label='PYRAMID', **ids, **eq)
        return {'name': 'pr.ColorSoftcopyPresentationState', 'variant': ('pyramid', len(levels), order), 'call': call,
                'inputs': {'referenced_images': levels}}
    n = r.randint(4, 6)
    img = sources.enhanced_multiframe(n, 4, 4)
    frames = list(range(1, n + 1))
    r.shuffle(frames)
    cut = r.randint(2, n - 1)
    groups = [frames[:cut], frames[cut:]]
    if len(groups[1]) > 1 and r.random() < 0.5:
        groups = [groups[0], groups[1][:1], groups[1][1:]]
    voi = []
    for g in groups:
        form = r.choice(['list', 'list', 'multivalue'])     # the container the frame numbers come in (a tuple is refused: int(tuple))
        if form == 'tuple':
            gg = tuple(g)
        elif form == 'multivalue':
            from pydicom.multival import MultiValue
            gg = MultiValue(int, list(g))
        else:
            gg = list(g)
        ref = hd.ReferencedImageSequence(referenced_images=[img], referenced_frame_number=gg if len(g) > 1 or r.random() < 0.5 else g[0])
        voi.append(pr.SoftcopyVOILUTTransformation(window_center=fnum(r, 40.0), window_width=fnum(r, 400.0), referenced_images=ref))

    def call(referenced_images, voi_lut_transformations):
        return pr.GrayscaleSoftcopyPresentationState(referenced_images=referenced_images,
                                                     voi_lut_transformations=voi_lut_transformations, content_label='FRAMES',
                                                     **ids, **eq)
    return {'name': 'pr.GrayscaleSoftcopyPresentationState', 'variant': ('frame-specific voi', n, tuple(len(g) for g in groups)),
            'call': call, 'inputs': {'referenced_images': [img], 'voi_lut_transformations': voi}}


def subject_pr_blending(r, nr):
    import highdicom as hd
    from highdicom import pr
    a = sources.ct_series(r.randint(1, 2), 4, 4)
    b = sources.ct_series(r.randint(1, 2), 4, 4, study=a[0].StudyInstanceUID, frame_of_reference=a[0].FrameOfReferenceUID)
    for d in a + b:
        d.RescaleIntercept = 0
        d.RescaleSlope = 1
        d.RescaleType = 'HU'
    how = r.choice(['c', 'readonly', 'view', 'negstride', 'readonly_view'])

    def lut():
        mk = lambda: layout(nr.integers(0, 65535, size=256).astype(np.uint16), how)  # noqa: E731
        return hd.PaletteColorLUTTransformation(red_lut=hd.PaletteColorLUT(0, mk(), color='red'),
                                                green_lut=hd.PaletteColorLUT(0, mk(), color='green'),
                                                blue_lut=hd.PaletteColorLUT(0, mk(), color='blue'))
    voi = lambda: [pr.SoftcopyVOILUTTransformation(window_center=40.0, window_width=400.0)]  # noqa: E731
    blend = [pr.AdvancedBlending(referenced_images=a, blending_input_number=1, voi_lut_transformations=voi(),
                                 palette_color_lut_transformation=lut()),
             pr.AdvancedBlending(referenced_images=b, blending_input_number=2, voi_lut_transformations=voi(),
                                 palette_color_lut_transformation=lut())]
    mode = r.choice(['FOREGROUND', 'EQUAL'])
    disp = pr.BlendingDisplay(blending_mode=mode, blending_display_inputs=[pr.BlendingDisplayInput(1), pr.BlendingDisplayInput(2)],
                              relative_opacity=r.choice([0.5, 1.0 / 3.0]) if mode == 'FOREGROUND' else None)
    ids = _ids(r)
    eq = _equip()

    def call(referenced_images, blending, blending_display):
        return pr.AdvancedBlendingPresentationState(referenced_images=referenced_images, blending=blending,
                                                    blending_display=blending_display, content_label='BLEND', **ids, **eq)
    return {'name': 'pr.AdvancedBlendingPresentationState', 'variant': (mode, how, len(a), len(b)), 'call': call,
            'inputs': {'referenced_images': a + b, 'blending': blend, 'blending_display': [disp]}}


# ------------------------------------------------------------------------------------------ legacy conversion
def subject_legacy(r, nr):
    import highdicom as hd
    which = r.choice(['CT', 'MR', 'PET'])
    n = r.randint(1, 4)
    src = sources.ct_series(n, r.randint(2, 5), r.randint(2, 5))
    sop = {'CT': '1.2.840.10008.5.1.4.1.1.2', 'MR': '1.2.840.10008.5.1.4.1.1.4', 'PET': '1.2.840.10008.5.1.4.1.1.128'}[which]
    mod = {'CT': 'CT', 'MR': 'MR', 'PET': 'PT'}[which]
    from pydicom.valuerep import DA, TM
    optional = {
        'ContentDate': '20200102', 'ContentTime': '010203', 'AcquisitionDateTime': '20200101010203.000000',
        'SeriesDate': '20200101', 'SeriesTime': '010203', 'InstanceCreationDate': '20200103', 'InstanceCreationTime': '040506',
        'WindowCenter': 40, 'WindowWidth': 400, 'LossyImageCompression': '00', 'BurnedInAnnotation': 'NO',
        'PatientPosition': 'HFS', 'BodyPartExamined': 'CHEST', 'SeriesDescription': 'series', 'ProtocolName': 'protocol',
        'PresentationLUTShape': 'IDENTITY', 'VolumetricProperties': 'VOLUME', 'PixelPresentation': 'MONOCHROME',
        'ContentQualification': 'RESEARCH', 'ImageComments': None, 'StationName': 'st', 'InstitutionName': 'inst',
        'PatientAge': '040Y', 'PatientWeight': 70.5, 'StudyDescription': 'study', 'FrameOfReferenceUID': None,
        'PositionReferenceIndicator': '', 'TemporalPositionTimeOffset': 0.0, 'IrradiationEventUID': None,
    }
    chosen = [k for k in optional if r.random() < 0.6]
    typed_dates = r.random() < 0.7
    mixed_types = r.random() < 0.4
    weird_extras = r.random() < 0.25
    for i, d in enumerate(src):
        d.SOPClassUID = sop
        d.file_meta.MediaStorageSOPClassUID = sop
        d.Modality = mod
        d.RescaleIntercept = 0
        d.RescaleSlope = 1
        d.SliceThickness = 1.0
        d.ImageType = ['DERIVED', 'SECONDARY', 'AXIAL'] if (mixed_types and i == len(src) - 1) else ['ORIGINAL', 'PRIMARY', 'AXIAL']
        d.AcquisitionNumber = 1
        d.KVP = 120.0 if which == 'CT' else None
        d.InstanceNumber = i + 1
        if typed_dates:       # the per-frame acquisition date time is only derived from date / time objects
            d.AcquisitionDate = DA('20200101')
            d.AcquisitionTime = TM('010203')
        if weird_extras:
            # legal but unusual: a single-frame instance that carries (empty) functional group sequences of its own
            from pydicom.sequence import Sequence as _Seq
            d.SharedFunctionalGroupsSequence = _Seq([])
            d.PerFrameFunctionalGroupsSequence = _Seq([])
        for k in chosen:
            v = optional[k]
            if k == 'ImageComments':
                v = f'comment {i}'            # varies per instance: goes to the per-frame unassigned attributes
            elif k == 'IrradiationEventUID':
                v = new_uid()
            elif k == 'FrameOfReferenceUID':
                continue
            setattr(d, k, v)
    cls = getattr(hd.legacy, f'LegacyConvertedEnhanced{which}Image')
    ids = _ids(r)

    def call(legacy_datasets):
        return cls(legacy_datasets=legacy_datasets, **ids)
    return {'name': 'legacy.' + cls.__name__, 'variant': (which, n, len(chosen), typed_dates, mixed_types, weird_extras), 'call': call,
            'inputs': {'legacy_datasets': src}}


# ------------------------------------------------------------------------------------------ content classes
def subject_content(r, nr):
    """A bundle of content-level objects (templates, content items of every value type, shared content classes) built
    from caller-owned arrays / datasets; returned as a list so that converters can be exercised on each of them."""
    import datetime
    import highdicom as hd
    from highdicom import sr
    from pydicom.sr.codedict import codes
    img = sources.ct_series(2, 3, 3)
    seg_src = sources.ct_series(2, 3, 3)
    mask = np.zeros((2, 3, 3), np.uint8)
    mask[0, 1, 1] = 1
    mask[1, 1, 1] = 1
    seg = hd.seg.Segmentation(seg_src, mask, 'BINARY', [sources.seg_description(1, tracking=True)], new_uid(), 1, new_uid(), 1,
                              'm', 'mm', '1', '1')
    how = r.choice(LAYOUTS)
    p2 = layout(nr.integers(1, 5, size=(1, 2)).astype(np.float64), how)
    p3 = layout(nr.integers(1, 5, size=(1, 3)).astype(np.float64), how)
    ell = layout(np.array([[1.0, 2.0, 2.0], [3.0, 2.0, 2.0], [2.0, 1.0, 2.0], [2.0, 3.0, 2.0], [2.0, 2.0, 1.0], [2.0, 2.0, 3.0]]), how)
    lut = layout(np.arange(256, dtype=np.uint16), r.choice(['c', 'readonly', 'view', 'negstride', 'readonly_view']))
    name = codes.DCM.LevelOfSignificance
    rel = sr.RelationshipTypeValues.CONTAINS
    uids = [new_uid() for _ in range(12)]
    seq_kind = r.choice([list, tuple])

    extra = [sr.TextContentItem(name=codes.DCM.AcquisitionProtocol, value='protocol',
                                relationship_type=r.choice([sr.RelationshipTypeValues.CONTAINS,
                                                            sr.RelationshipTypeValues.HAS_ACQ_CONTEXT]))]

    def call(images, segmentation, point2d, point3d, ellipsoid, lut_data, extra_items):
        i0 = images[0]
        return [
            hd.AlgorithmIdentificationSequence(name='alg', family=codes.DCM.ArtificialIntelligence, version='1.0', source='src',
                                               parameters={'a': '1'}),
            hd.IssuerOfIdentifier('issuer'),
            hd.LUT(first_mapped_value=0, lut_data=lut_data, lut_explanation='x'),
            hd.SpecimenPreparationStep('spec1', processing_procedure=hd.SpecimenCollection(procedure=codes.SCT.Biopsy)),
            hd.SpecimenDescription(specimen_id='spec1', specimen_uid=uids[0], specimen_preparation_steps=[
                hd.SpecimenPreparationStep('spec1', processing_procedure=hd.SpecimenStaining(substances=[codes.SCT.HematoxylinStain]))]),
            sr.DateContentItem(name=name, value=datetime.date(2020, 1, 2), relationship_type=rel),
            sr.TimeContentItem(name=name, value=datetime.time(1, 2, 3), relationship_type=rel),
            sr.DateTimeContentItem(name=name, value=datetime.datetime(2020, 1, 2, 3, 4, 5), relationship_type=rel),
            sr.CompositeContentItem(name=name, referenced_sop_class_uid='1.2.840.10008.5.1.4.1.1.88.11',
                                    referenced_sop_instance_uid=uids[1], relationship_type=rel),
            sr.ScoordContentItem(name=name, graphic_type=sr.GraphicTypeValues.POINT, graphic_data=point2d, relationship_type=rel),
            sr.Scoord3DContentItem(name=name, graphic_type=sr.GraphicTypeValues3D.POINT, graphic_data=point3d,
                                   frame_of_reference_uid=uids[2], relationship_type=rel),
            sr.TcoordContentItem(name=name, temporal_range_type=sr.TemporalRangeTypeValues.POINT, referenced_time_offsets=[1.0],
                                 relationship_type=rel),
            sr.WaveformContentItem(name=name, referenced_sop_class_uid='1.2.840.10008.5.1.4.1.1.9.1.1',
                                   referenced_sop_instance_uid=uids[3], referenced_waveform_channels=[(1, 1)],
                                   relationship_type=rel),
            sr.CoordinatesForMeasurement(graphic_type=sr.GraphicTypeValues.POINT, graphic_data=point2d,
                                         source_image=sr.SourceImageForRegion.from_source_image(i0)),
            sr.CoordinatesForMeasurement3D(graphic_type=sr.GraphicTypeValues3D.POINT, graphic_data=point3d,
                                           frame_of_reference_uid=uids[4]),
            sr.LongitudinalTemporalOffsetFromEvent(value=5, unit=codes.UCUM.Day, event_type=codes.DCM.Baseline),
            sr.RealWorldValueMap(referenced_sop_instance_uid=uids[5]),
            sr.ReferencedSegment.from_segmentation(segmentation, segment_number=1),
            sr.ReferencedSegmentationFrame.from_segmentation(segmentation, frame_number=1),
            sr.SourceImageForMeasurement.from_source_image(i0),
            sr.SourceImageForMeasurementGroup.from_source_image(i0),
            sr.SourceImageForSegmentation.from_source_image(i0),
            sr.SourceSeriesForSegmentation.from_source_image(i0),
            sr.VolumeSurface(graphic_type=sr.GraphicTypeValues3D.ELLIPSOID, graphic_data=ellipsoid, frame_of_reference_uid=uids[6],
                             source_images=[sr.SourceImageForSegmentation.from_source_image(i0)]),
            sr.DeviceObserverIdentifyingAttributes(uid=uids[7], name='dev', manufacturer_name='m'),
            sr.PersonObserverIdentifyingAttributes(name='Doe^J', login_name='jd'),
            sr.SubjectContextDevice(name='dev', uid=uids[8]),
            sr.SubjectContextFetus(subject_id='f1'),
            sr.SubjectContextSpecimen(uid=uids[9], identifier='s1'),
            hd.ko.KeyObjectSelection(document_title=codes.DCM.Manifest, referenced_objects=images),
            sr.Measurement(name=codes.SCT.AreaOfDefinedRegion, value=1.5, unit=codes.UCUM.SquareMillimeter),
            sr.QualitativeEvaluation(name=name, value=codes.SCT.NotSignificant),
            _measurement_report(r, nr, images, use_3d=False),
            *_measurement_report(r, nr, images, use_3d=False, want_groups=True),
            *_measurement_report(r, nr, images, use_3d=True, want_groups=True),
            sr.ImageLibraryEntryDescriptors(i0, additional_descriptors=extra_items),
            hd.VOILUTTransformation(window_center=seq_kind([fnum(r, 40.0), fnum(r, 50.0), fnum(r, 60.0)]),
                                    window_width=seq_kind([fnum(r, 400.0), fnum(r, 300.0), fnum(r, 200.0)]),
                                    window_explanation=seq_kind(['a', 'b', 'c'])),
            hd.VOILUTTransformation(window_center=fnum(r, 40.0), window_width=fnum(r, 400.0)),
            hd.ModalityLUTTransformation(rescale_intercept=fnum(r, -3.0), rescale_slope=fnum(r, 0.5), rescale_type='US'),
            hd.PixelMeasuresSequence(pixel_spacing=(num(r, 0.5), num(r, 0.25)), slice_thickness=num(r, 1.0),
                                     spacing_between_slices=num(r, 1.5)),
            hd.PlanePositionSequence(hd.CoordinateSystemNames.PATIENT, image_position=(num(r, 1.0), num(r, -2.0), num(r, 3.0))),
            hd.PlanePositionSequence(hd.CoordinateSystemNames.SLIDE, image_position=(num(r, 10.0), num(r, 20.0), num(r, 0.0)),
                                     pixel_matrix_position=(1, 1)),
            hd.PlaneOrientationSequence(hd.CoordinateSystemNames.PATIENT,
                                        image_orientation=(0.7071067811865476, 0.7071067811865475, 0.0, 0.0, 0.0, -1.0)),
            sr.TcoordContentItem(name=name, temporal_range_type=sr.TemporalRangeTypeValues.MULTIPOINT,
                                 referenced_time_offsets=[num(r, 1.0), num(r, 2.0)], relationship_type=rel),
            hd.seg.SegmentDescription(
                segment_number=1, segment_label='full', segmented_property_category=codes.SCT.Tissue,
                segmented_property_type=codes.SCT.Tissue, algorithm_type='AUTOMATIC',
                algorithm_identification=hd.AlgorithmIdentificationSequence(
                    name='alg', family=codes.DCM.ArtificialIntelligence, version='1.0'),
                tracking_uid=uids[10], tracking_id='t1', anatomic_regions=[codes.SCT.Thorax],
                primary_anatomic_structures=[codes.SCT.Lung]),
        ]
    return {'name': 'content bundle', 'variant': (how,), 'call': call,
            'inputs': {'images': img, 'segmentation': seg, 'point2d': p2, 'point3d': p3, 'ellipsoid': ell, 'lut_data': lut,
                       'extra_items': extra}}


def vary_containers(inputs, r):
    """every list of data sets among the arguments in another accepted container form (tuple, pydicom Sequence) now and then;
    returns {argument: form}"""
    from pydicom.dataset import Dataset
    from pydicom.sequence import Sequence as _Seq
    forms = {}
    for k, v in list(inputs.items()):
        if type(v) is list and v and all(isinstance(i, Dataset) for i in v):
            f = r.choice(['list', 'list', 'tuple', 'sequence'])
            if f == 'tuple':
                inputs[k] = tuple(v)
            elif f == 'sequence':
                inputs[k] = _Seq(v)
            forms[k] = f
        elif type(v) is list and v and all(isinstance(i, (int, float)) and not isinstance(i, bool) for i in v):
            # a list of numbers: also as tuple / numpy array / pydicom MultiValue (what an attribute of a parsed data set holds)
            f = r.choice(['list', 'list', 'tuple', 'ndarray', 'multivalue'])
            if f == 'tuple':
                inputs[k] = tuple(v)
            elif f == 'ndarray':
                inputs[k] = np.array(v)
            elif f == 'multivalue':
                from pydicom.multival import MultiValue
                inputs[k] = MultiValue(type(v[0]), list(v))
            forms[k] = 'numbers:' + f
    return forms


SUBJECTS = [subject_content, subject_seg, subject_seg, subject_seg, subject_seg_volume, subject_pm, subject_pm, subject_sc, subject_sr,
            subject_sr, subject_ko, subject_ann, subject_pr, subject_pr, subject_pr_multi, subject_pr_blending, subject_legacy]
