"""Pixel-transform metadata for synthetic images (C06; usable by any property that needs frames with
modality / VOI / presentation / palette colour / real-world-value metadata).

    T = {                                   # every key optional
      'pres_shape': 'IDENTITY' | 'INVERSE',
      'mod_lut':  {'first': int, 'bits': 8|16, 'data': [int, ...]},                # ModalityLUTSequence (image level)
      'rescale':  [{'place': 'image'|'shared'|'perframe', 'vals': [[slope|None, intercept|None], ...]}, ...],
      'window':   [{'place': ..., 'vals': [{'c': [..], 'w': [..], 'expl': [..]|None, 'fn': str|None}, ...]}, ...],
      'voi_luts': [{'first': int, 'bits': 8|16, 'data': [...], 'expl': str|None}, ...],   # VOILUTSequence (image level)
      'voi_luts_placed': [{'place': 'shared'|'perframe', 'vals': [[lut, ...], ...]}],       # inside FrameVOILUTSequence
      'rwvm':     [{'place': ..., 'vals': [[map, ...], ...]}, ...],
                  map = {'label': str, 'unit': [value, scheme, meaning], 'first': int, 'last': int,
                         'slope': q, 'intercept': q} | {..., 'lut': [q, ...]}  (+ 'double': True for FD first/last)
      'palette':  {'first': int, 'bits': 8|16, 'data': [[r, g, b], ...]},
      'icc': True,
    }
`vals` has one entry for 'image'/'shared' and one per frame for 'perframe'.  Numbers `q` are ints or
"p/q" strings (exact rationals; they must be exactly representable as float64 to be stored exactly).
"""
from __future__ import annotations

from fractions import Fraction

import numpy as np
from pydicom.dataset import Dataset
from pydicom.sequence import Sequence


def frac(x) -> Fraction:
    if isinstance(x, Fraction):
        return x
    if isinstance(x, (int, np.integer)):
        return Fraction(int(x))
    if isinstance(x, float):
        return Fraction(x)
    return Fraction(x)


def fstr(q) -> str:
    q = frac(q)
    return str(q.numerator) if q.denominator == 1 else f'{q.numerator}/{q.denominator}'


def fl(x) -> float:
    q = frac(x)
    f = q.numerator / q.denominator
    if Fraction(f) != q:
        raise ValueError(f'{x} is not exactly representable as float64')
    return f


def lut_item(first, bits, data, expl=None, lut_type=None, signed_first=False):
    """One item of a Modality/VOI LUT Sequence, written directly (independent of highdicom's LUT class)."""
    it = Dataset()
    n = len(data)
    arr = np.asarray(data, dtype=np.uint8 if bits == 8 else np.uint16)
    raw = arr.tobytes()
    if len(raw) % 2:
        raw += b'\x00'
    it.LUTDescriptor = [0 if n == 65536 else n, int(first), bits]
    if signed_first:
        it['LUTDescriptor'].VR = 'SS'
    it.LUTData = raw
    it['LUTData'].VR = 'OW'
    if expl is not None:
        it.LUTExplanation = expl
    if lut_type is not None:
        it.ModalityLUTType = lut_type
    return it


def rwvm_item(m):
    from pydicom.sr.coding import Code  # noqa: F401
    it = Dataset()
    it.LUTLabel = m['label']
    it.LUTExplanation = m.get('expl', m['label'])
    u = Dataset()
    u.CodeValue, u.CodingSchemeDesignator, u.CodeMeaning = m['unit']
    it.MeasurementUnitsCodeSequence = Sequence([u])
    if m.get('double'):
        it.DoubleFloatRealWorldValueFirstValueMapped = float(m['first'])
        it.DoubleFloatRealWorldValueLastValueMapped = float(m['last'])
    else:
        it.RealWorldValueFirstValueMapped = int(m['first'])
        it.RealWorldValueLastValueMapped = int(m['last'])
        vr = 'SS' if (int(m['first']) < 0 or int(m['last']) < 0) else 'US'
        it['RealWorldValueFirstValueMapped'].VR = vr
        it['RealWorldValueLastValueMapped'].VR = vr
    if 'lut' in m:
        it.RealWorldValueLUTData = [fl(v) for v in m['lut']]
    else:
        it.RealWorldValueSlope = fl(m['slope'])
        it.RealWorldValueIntercept = fl(m['intercept'])
    return it


def _window_attrs(target, w):
    c = [fl(x) for x in w['c']]
    ww = [fl(x) for x in w['w']]
    target.WindowCenter = c if len(c) > 1 else c[0]
    target.WindowWidth = ww if len(ww) > 1 else ww[0]
    if w.get('expl') is not None:
        e = list(w['expl'])
        target.WindowCenterWidthExplanation = e if len(e) > 1 else e[0]
    if w.get('fn') is not None:
        target.VOILUTFunction = w['fn']


def _rescale_attrs(target, v):
    slope, intercept = v
    if slope is not None:
        target.RescaleSlope = fl(slope)
    if intercept is not None:
        target.RescaleIntercept = fl(intercept)
    target.RescaleType = 'US'


def _groups(ds, n_frames):
    if 'SharedFunctionalGroupsSequence' not in ds:
        ds.SharedFunctionalGroupsSequence = Sequence([Dataset()])
    if 'PerFrameFunctionalGroupsSequence' not in ds:
        ds.PerFrameFunctionalGroupsSequence = Sequence([Dataset() for _ in range(n_frames)])
    return ds.SharedFunctionalGroupsSequence[0], ds.PerFrameFunctionalGroupsSequence


def icc_profile_bytes(swap_rb=True):
    """An sRGB matrix profile; with `swap_rb` the red and blue colorant tags are exchanged in the tag
    table, so that applying the profile visibly exchanges the R and B channels (ICC application becomes
    observable in the output without modelling littleCMS)."""
    from PIL import ImageCms
    b = bytearray(ImageCms.ImageCmsProfile(ImageCms.createProfile('sRGB')).tobytes())
    if swap_rb:
        i, j = b.find(b'rXYZ'), b.find(b'bXYZ')
        if i < 0 or j < 0:
            raise RuntimeError('sRGB profile without rXYZ/bXYZ tags')
        b[i:i + 4], b[j:j + 4] = b'bXYZ', b'rXYZ'
    return bytes(b)


def add_transforms(ds, T, n_frames=None):
    """Add the metadata described by T to the (image) dataset `ds` in place and return it."""
    n = int(n_frames if n_frames is not None else getattr(ds, 'NumberOfFrames', 1))
    if T.get('pres_shape'):
        ds.PresentationLUTShape = T['pres_shape']
    if T.get('mod_lut'):
        m = T['mod_lut']
        ds.ModalityLUTSequence = Sequence([lut_item(m['first'], m['bits'], m['data'], lut_type='US',
                                                    signed_first=m['first'] < 0)])
    for e in T.get('rescale') or []:
        if e['place'] == 'image':
            _rescale_attrs(ds, e['vals'][0])
        else:
            sh, pf = _groups(ds, n)
            for tgt, v in ([(sh, e['vals'][0])] if e['place'] == 'shared' else zip(pf, e['vals'])):
                it = Dataset()
                _rescale_attrs(it, v)
                tgt.PixelValueTransformationSequence = Sequence([it])
    for e in T.get('window') or []:
        if e['place'] == 'image':
            _window_attrs(ds, e['vals'][0])
        else:
            sh, pf = _groups(ds, n)
            for tgt, v in ([(sh, e['vals'][0])] if e['place'] == 'shared' else zip(pf, e['vals'])):
                it = Dataset()
                _window_attrs(it, v)
                tgt.FrameVOILUTSequence = Sequence([it])
    for e in T.get('voi_luts_placed') or []:
        # VOI LUTs inside the Frame VOI LUT functional group (PS3.3 C.7.6.16.2.10b), next to window values if any
        sh, pf = _groups(ds, n)
        for tgt, luts in ([(sh, e['vals'][0])] if e['place'] == 'shared' else zip(pf, e['vals'])):
            if 'FrameVOILUTSequence' not in tgt:
                tgt.FrameVOILUTSequence = Sequence([Dataset()])
            tgt.FrameVOILUTSequence[0].VOILUTSequence = Sequence([lut_item(v['first'], v['bits'], v['data'], expl=v.get('expl'),
                                                                           signed_first=v['first'] < 0) for v in luts])
    if T.get('voi_luts'):
        ds.VOILUTSequence = Sequence([lut_item(v['first'], v['bits'], v['data'], expl=v.get('expl'),
                                               signed_first=v['first'] < 0) for v in T['voi_luts']])
    for e in T.get('rwvm') or []:
        if e['place'] == 'image':
            ds.RealWorldValueMappingSequence = Sequence([rwvm_item(m) for m in e['vals'][0]])
        else:
            sh, pf = _groups(ds, n)
            for tgt, v in ([(sh, e['vals'][0])] if e['place'] == 'shared' else zip(pf, e['vals'])):
                tgt.RealWorldValueMappingSequence = Sequence([rwvm_item(m) for m in v])
    if T.get('palette'):
        p = T['palette']
        data = np.asarray(p['data'], dtype=np.uint8 if p['bits'] == 8 else np.uint16)
        k = data.shape[0]
        for j, col in enumerate(['Red', 'Green', 'Blue']):
            raw = data[:, j].tobytes()
            if len(raw) % 2:
                raw += b'\x00'
            setattr(ds, f'{col}PaletteColorLookupTableDescriptor', [0 if k == 65536 else k, int(p['first']), p['bits']])
            if p['first'] < 0:
                ds[f'{col}PaletteColorLookupTableDescriptor'].VR = 'SS'
            setattr(ds, f'{col}PaletteColorLookupTableData', raw)
            ds[f'{col}PaletteColorLookupTableData'].VR = 'OW'
    if T.get('icc'):
        ds.ICCProfile = icc_profile_bytes()
    return ds


def make_image(P):
    """P = {'bits': 8|16, 'signed': bool, 'bits_stored': int|None, 'photometric': str, 'frames': nested list
    (N, R, C) or (N, R, C, 3), 'T': {...}}  ->  pydicom Dataset (multi-frame secondary-capture-like)."""
    from gen.images import multiframe_image
    fr = np.asarray(P['frames'], dtype=np.int64)
    ds = multiframe_image(fr, P['bits'], signed=bool(P.get('signed')), photometric=P.get('photometric'))
    bs = P.get('bits_stored')
    if bs:
        ds.BitsStored = bs
        ds.HighBit = bs - 1
    add_transforms(ds, P.get('T') or {}, fr.shape[0])
    return ds
