"""Generators for TID 1500 measurement reports (C16).

`report(r, ...)` returns (MeasurementReport, groups) where `groups` is the list of CONSTRUCTION PARAMETERS of
the measurement groups in document order (plain Python); the oracle and the model input are computed from
these parameters only.  Small value pools make filters hit and miss.

group parameters:
  kind            'planar' | 'volumetric' | 'image'
  tracking_uid, tracking_id
  finding_type, finding_category   code (value, scheme) | None
  finding_sites   [code]; lateralities [code | None] (modifier below the site item: not a site); method code | None
  ref             {'type': 'region2d', 'graphic', 'source': (cls, inst)}
                  {'type': 'region3d', 'graphic'}
                  {'type': 'segframe', 'seg': (cls, inst), 'frames': [..], 'segment', 'source': (cls, inst)}
                  {'type': 'regions2d', 'regions': [(graphic, (cls, inst)), ...]}
                  {'type': 'segment', 'seg': (cls, inst), 'segment', 'sources': [(cls, inst)] | None, 'series': uid | None}
                  {'type': 'surface', 'graphic', 'n', 'sources': [...] | None, 'series': uid | None}
                  {'type': 'region_in_space', 'ref': (cls, inst)}
                  {'type': 'images', 'sources': [(cls, inst)]}            (image groups)
  measurements    [(name code, value, unit code)]
  evaluations     [(name code, value code)]
  geometric_purpose code | None
  template        bool: the container carries its template identification
"""
from __future__ import annotations

import numpy as np

ROOT = '1.2.826.0.1.3680043.8.498.16'
CT = '1.2.840.10008.5.1.4.1.1.2'
MR = '1.2.840.10008.5.1.4.1.1.4'
SEG = '1.2.840.10008.5.1.4.1.1.66.4'
RTSS = '1.2.840.10008.5.1.4.1.1.481.3'
IMAGE_CLASSES = [CT, MR]

FINDINGS = [('F1', '99VERIF'), ('F2', '99VERIF'), ('F3', '99VERIF')]
CATEGORIES = [('C1', '99VERIF'), ('C2', '99VERIF')]
SITES = [('S1', '99VERIF'), ('S2', '99VERIF'), ('S3', '99VERIF')]
MEAS = [('M1', '99VERIF'), ('M2', '99VERIF'), ('M3', '99VERIF')]
EVALS = [('Q1', '99VERIF'), ('Q2', '99VERIF')]
ANSWERS = [('A1', '99VERIF'), ('A2', '99VERIF')]
PURPOSES = [('P1', '99VERIF')]
METHODS_ = [('MM1', '99VERIF'), ('MM2', '99VERIF')]
LATERALITIES = [('S2', '99VERIF'), ('L9', '99VERIF')]    # S2 is also a site code: a laterality is not a finding site
G2D = ['POINT', 'POLYLINE', 'CIRCLE', 'ELLIPSE']
G3D_REGION = ['POINT', 'POLYGON', 'ELLIPSE', 'POLYLINE']
G3D_SURFACE = ['ELLIPSOID', 'POINT', 'POLYGON', 'ELLIPSE']


def cc(code):
    """(value, scheme[, version]) -> CodedConcept"""
    from highdicom.sr import CodedConcept
    return CodedConcept(value=code[0], scheme_designator=code[1], meaning='meaning of ' + code[0],
                        scheme_version=code[2] if len(code) > 2 else None)


def _data2d(r, g):
    n = {'POINT': 1, 'POLYLINE': 4, 'CIRCLE': 2, 'ELLIPSE': 4}[g]
    if g == 'POLYLINE':
        a = [[r.randint(0, 20) / 2, r.randint(0, 20) / 2] for _ in range(3)]
        return np.array(a + [a[0]])
    if g == 'ELLIPSE':
        x, y = r.randint(4, 10), r.randint(4, 10)
        return np.array([[x - 2.0, y], [x + 2.0, y], [x, y - 1.0], [x, y + 1.0]])
    return np.array([[r.randint(0, 20) / 2, r.randint(0, 20) / 2] for _ in range(n)])


def _data3d(r, g):
    z = float(r.randint(0, 5))
    if g == 'POINT':
        return np.array([[1.0, 2.0, z]])
    if g in ('POLYGON', 'POLYLINE'):
        a = [[1.0, 1.0, z], [3.0, 1.0, z], [2.0, 3.0, z]]
        return np.array(a + ([a[0]] if g == 'POLYGON' else []))
    if g == 'ELLIPSE':
        return np.array([[0.0, 2.0, z], [4.0, 2.0, z], [2.0, 1.0, z], [2.0, 3.0, z]])
    if g == 'ELLIPSOID':
        return np.array([[0.0, 2.0, 2.0], [4.0, 2.0, 2.0], [2.0, 1.0, 2.0], [2.0, 3.0, 2.0], [2.0, 2.0, 0.0], [2.0, 2.0, 4.0]])
    raise AssertionError(g)


def instance_pool(r, n=6):
    base = f'{ROOT}.{r.randrange(1, 10 ** 8)}'
    out = []
    for k in range(1, n + 1):
        cls = r.choice(IMAGE_CLASSES)
        out.append((cls, f'{base}.1.{k}'))
    segs = [(SEG, f'{base}.2.{k}') for k in (1, 2)]
    rts = [(RTSS, f'{base}.3.1')]
    return {'base': base, 'images': out, 'segs': segs, 'rts': rts, 'series': [f'{base}.1', f'{base}.4']}


# measurement values: "nice" quarters as before, values whose shortest decimal form needs more than the 16 characters of a
# DS (computed means / volumes: the exact value then lives in FloatingPointValue only), ints (no FloatingPointValue at all),
# tiny / huge magnitudes, negative zero-ish values
LONG_VALUES = [0.1 + 0.2, 1 / 3, -1 / 3, 100.68214285714285, 2 / 3 * 1e-5, 123456.78901234567, -98765.4321e10 / 7, 1e-7 / 3,
               7.000000000000001, 5e-324 * 2 ** 60]
INT_VALUES = [7, -3, 0, 1234567]


def measurement_value(r):
    u = r.random()
    if u < 0.5:
        return r.randint(-40, 40) / 4
    if u < 0.8:
        return r.choice(LONG_VALUES)
    return r.choice(INT_VALUES)


def value_kind(v):
    if isinstance(v, int):
        return 'int'
    return 'long-decimal' if len(repr(v)) > 16 else 'short-decimal'


def _measurement_extras(r, pool):
    """optional parts of a single measurement (children of the NUM item)"""
    if r.random() < 0.6:
        return {}
    return {'qualifier': r.choice([('QL1', '99VERIF'), None]), 'derivation': r.choice([('DV1', '99VERIF'), None]),
            'method': r.choice([('MT1', '99VERIF'), None]), 'sites': r.sample(SITES, r.choice([0, 1, 2])),
            'images': [r.choice(pool['images']) for _ in range(r.choice([0, 0, 1, 2]))]}


def group_params(r, pool, idx, kinds=('planar', 'volumetric', 'image')):
    kind = r.choice(kinds)
    ctx = {'session': ('session %d' % idx) if r.random() < 0.2 else None,
           'algorithm': ('alg', '1.%d' % idx, ['p=1'] if r.random() < 0.5 else []) if r.random() < 0.2 else None,
           'time_point': None, 'rwvm': (pool['base'] + '.6.1') if r.random() < 0.2 else None}
    if r.random() < 0.3:
        ctx['time_point'] = {'time_point': 'tp %d' % idx, 'type': r.choice([('TP1', '99VERIF'), None]),
                             'order': r.choice([1, 2, None]), 'subject': r.choice(['subj', None])}
    g = {'kind': kind, 'tracking_uid': f'{pool["base"]}.9.{idx}', 'tracking_id': f'lesion {idx}',
         'finding_type': r.choice(FINDINGS + [None]), 'finding_category': r.choice(CATEGORIES + [None, None]),
         'finding_sites': r.sample(SITES, r.choice([0, 0, 1, 1, 2])), 'method': r.choice(METHODS_ + [None, None]),
         'lateralities': [],
         'measurements': [(r.choice(MEAS), measurement_value(r), ('mm', 'UCUM'), _measurement_extras(r, pool))
                          for _ in range(r.choice([0, 1, 1, 2]))],
         'evaluations': [(r.choice(EVALS), r.choice(ANSWERS)) for _ in range(r.choice([0, 0, 1, 2]))],
         'geometric_purpose': None, 'template': r.random() < 0.6, 'context': ctx}
    g['lateralities'] = [r.choice(LATERALITIES + [None, None]) for _ in g['finding_sites']]
    if r.random() < 0.15:
        # a tracking UID shared with another group (filters must return every match)
        g['tracking_uid'] = f'{pool["base"]}.9.0'
    img = lambda: r.choice(pool['images'])   # noqa: E731
    if kind == 'planar':
        t = r.choice(['region2d', 'region2d', 'region3d', 'segframe', 'region_in_space'])
        if t == 'region2d':
            g['ref'] = {'type': t, 'graphic': r.choice(G2D), 'source': img()}
            if r.random() < 0.35:
                g['ref']['source_frames'] = sorted(r.sample(range(1, 9), r.choice([1, 2])))
                g['ref']['origin'] = r.choice([None, 'FRAME', 'VOLUME'])
        elif t == 'region3d':
            g['ref'] = {'type': t, 'graphic': r.choice(G3D_REGION)}
        elif t == 'segframe':
            g['ref'] = {'type': t, 'seg': r.choice(pool['segs']), 'frames': sorted(r.sample(range(1, 6), r.choice([1, 1, 2]))),
                        'segment': r.randint(1, 3), 'source': img()}
        else:
            g['ref'] = {'type': t, 'ref': r.choice(pool['rts'])}
    elif kind == 'volumetric':
        t = r.choice(['regions2d', 'regions2d', 'segment', 'surface', 'region_in_space'])
        if t == 'regions2d':
            n = r.choice([1, 2, 2, 3])
            if not g['template'] and n == 1:
                n = 2      # a template-less container with ONE image region is indistinguishable from a planar group
            g['ref'] = {'type': t, 'regions': [(r.choice(G2D), img()) for _ in range(n)]}
        elif t == 'segment':
            if r.random() < 0.7:
                g['ref'] = {'type': t, 'seg': r.choice(pool['segs']), 'segment': r.randint(1, 3),
                            'sources': [img() for _ in range(r.choice([1, 2]))], 'series': None,
                            'frames': sorted(r.sample(range(1, 9), 2)) if r.random() < 0.4 else None}
            else:
                g['ref'] = {'type': t, 'seg': r.choice(pool['segs']), 'segment': r.randint(1, 3), 'sources': None,
                            'series': r.choice(pool['series'])}
        elif t == 'surface':
            gt = r.choice(G3D_SURFACE)
            n = 1 if gt in ('ELLIPSOID', 'POINT') else r.choice([2, 3])
            if r.random() < 0.6:
                g['ref'] = {'type': t, 'graphic': gt, 'n': n, 'sources': [img() for _ in range(r.choice([1, 2]))], 'series': None}
            else:
                g['ref'] = {'type': t, 'graphic': gt, 'n': n, 'sources': None, 'series': r.choice(pool['series'])}
        else:
            g['ref'] = {'type': t, 'ref': r.choice(pool['rts'])}
    else:
        g['ref'] = {'type': 'images', 'sources': [img() for _ in range(r.choice([0, 1, 1, 2]))]}
    if kind != 'image' and r.random() < 0.2:
        g['geometric_purpose'] = PURPOSES[0]
    return g


def build_group(r, g):
    """Construct the highdicom group from its parameters."""
    from highdicom import sr
    kw = dict(
        tracking_identifier=sr.TrackingIdentifier(uid=g['tracking_uid'], identifier=g['tracking_id']),
        finding_type=cc(g['finding_type']) if g['finding_type'] else None,
        finding_category=cc(g['finding_category']) if g['finding_category'] else None,
        method=cc(g['method']) if g['method'] else None,
        session=g['context']['session'],
        algorithm_id=sr.AlgorithmIdentification(name=g['context']['algorithm'][0], version=g['context']['algorithm'][1],
                                                parameters=g['context']['algorithm'][2] or None) if g['context']['algorithm'] else None,
        time_point_context=sr.TimePointContext(
            time_point=g['context']['time_point']['time_point'],
            time_point_type=cc(g['context']['time_point']['type']) if g['context']['time_point']['type'] else None,
            time_point_order=g['context']['time_point']['order'],
            subject_time_point_identifier=g['context']['time_point']['subject']) if g['context']['time_point'] else None,
        referenced_real_world_value_map=sr.RealWorldValueMap(g['context']['rwvm']) if g['context']['rwvm'] else None,
        finding_sites=[sr.FindingSite(anatomic_location=cc(s), laterality=cc(lat) if lat else None,
                                      topographical_modifier=cc(('TM1', '99VERIF')) if (lat and lat[0] == 'L9') else None)
                       for s, lat in zip(g['finding_sites'], g['lateralities'])] or None,
        measurements=[sr.Measurement(
            name=cc(n), value=v, unit=cc(u),
            qualifier=cc(x['qualifier']) if x.get('qualifier') else None,
            derivation=cc(x['derivation']) if x.get('derivation') else None,
            method=cc(x['method']) if x.get('method') else None,
            finding_sites=[sr.FindingSite(anatomic_location=cc(t)) for t in x.get('sites', [])] or None,
            referenced_images=[sr.SourceImageForMeasurement(a, b) for a, b in x.get('images', [])] or None)
            for n, v, u, x in g['measurements']] or None,
        qualitative_evaluations=[sr.QualitativeEvaluation(name=cc(n), value=cc(v)) for n, v in g['evaluations']] or None,
    )
    ref = g['ref']
    t = ref['type']
    if g['kind'] != 'image':
        kw['geometric_purpose'] = cc(g['geometric_purpose']) if g['geometric_purpose'] else None

    def region2d(graphic, source, frames=None, origin=None):
        return sr.ImageRegion(graphic, _data2d(r, graphic), sr.SourceImageForRegion(source[0], source[1], referenced_frame_numbers=frames),
                              pixel_origin_interpretation=origin)

    placeholder = False
    if t == 'region2d':
        obj = sr.PlanarROIMeasurementsAndQualitativeEvaluations(
            referenced_region=region2d(ref['graphic'], ref['source'], ref.get('source_frames'), ref.get('origin')), **kw)
    elif t == 'region3d':
        obj = sr.PlanarROIMeasurementsAndQualitativeEvaluations(
            referenced_region=sr.ImageRegion3D(ref['graphic'], _data3d(r, ref['graphic']), '1.2.826.0.1.3680043.8.498.16.77'), **kw)
    elif t == 'segframe':
        fr = ref['frames'] if len(ref['frames']) > 1 else ref['frames'][0]
        obj = sr.PlanarROIMeasurementsAndQualitativeEvaluations(
            referenced_segment=sr.ReferencedSegmentationFrame(ref['seg'][0], ref['seg'][1], fr, ref['segment'],
                                                              sr.SourceImageForSegmentation(ref['source'][0], ref['source'][1])), **kw)
    elif t == 'regions2d':
        obj = sr.VolumetricROIMeasurementsAndQualitativeEvaluations(
            referenced_regions=[region2d(a, b) for a, b in ref['regions']], **kw)
    elif t == 'segment':
        obj = sr.VolumetricROIMeasurementsAndQualitativeEvaluations(
            referenced_segment=sr.ReferencedSegment(
                ref['seg'][0], ref['seg'][1], ref['segment'], frame_numbers=ref.get('frames'),
                source_images=[sr.SourceImageForSegmentation(a, b) for a, b in ref['sources']] if ref['sources'] else None,
                source_series=sr.SourceSeriesForSegmentation(ref['series']) if ref['series'] else None), **kw)
    elif t == 'surface':
        data = [_data3d(r, ref['graphic']) for _ in range(ref['n'])]
        obj = sr.VolumetricROIMeasurementsAndQualitativeEvaluations(
            referenced_volume_surface=sr.VolumeSurface(
                ref['graphic'], data, '1.2.826.0.1.3680043.8.498.16.77',
                source_images=[sr.SourceImageForSegmentation(a, b) for a, b in ref['sources']] if ref['sources'] else None,
                source_series=sr.SourceSeriesForSegmentation(ref['series']) if ref['series'] else None), **kw)
    elif t == 'region_in_space':
        # no constructor argument exists: build with a placeholder region and put the COMPOSITE item in its place
        placeholder = True
        if g['kind'] == 'planar':
            obj = sr.PlanarROIMeasurementsAndQualitativeEvaluations(referenced_region=region2d('POINT', (CT, '1.2.3')), **kw)
        else:
            obj = sr.VolumetricROIMeasurementsAndQualitativeEvaluations(
                referenced_regions=[region2d('POINT', (CT, '1.2.3')), region2d('POINT', (CT, '1.2.3'))], **kw)
    elif t == 'images':
        obj = sr.MeasurementsAndQualitativeEvaluations(
            source_images=[sr.SourceImageForMeasurementGroup(a, b) for a, b in ref['sources']] or None, **kw)
    else:  # pragma: no cover
        raise AssertionError(t)
    item = obj[0]
    if placeholder:
        keep = [x for x in item.ContentSequence if not (str(x.ValueType) == 'SCOORD')]
        ris = sr.CompositeContentItem(name=sr.CodedConcept(value='130488', scheme_designator='DCM', meaning='Region in Space'),
                                      referenced_sop_class_uid=ref['ref'][0], referenced_sop_instance_uid=ref['ref'][1],
                                      relationship_type='CONTAINS')
        item.ContentSequence = sr.ContentSequence(keep + [ris])
    if not g['template']:
        del item.ContentTemplateSequence
    return obj


def report(r, n_groups=None, kinds=('planar', 'volumetric', 'image')):
    """(MeasurementReport, [group parameters], pool).  n_groups >= 1 (the constructor demands one)."""
    from highdicom import sr
    from pydicom.sr.codedict import codes
    pool = instance_pool(r)
    n = n_groups if n_groups is not None else r.choice([1, 1, 2, 2, 3, 3, 4, 5, 6])
    groups = [group_params(r, pool, i + 1, kinds) for i in range(n)]
    objs = [build_group(r, g) for g in groups]
    oc = sr.ObservationContext(observer_person_context=sr.ObserverContext(
        observer_type=codes.DCM.Person,
        observer_identifying_attributes=sr.PersonObserverIdentifyingAttributes(name='Doe^Jane')))
    # report-level options (what else the root container holds next to the measurement groups): an image library (TID 1600,
    # its own containers and IMAGE items at the top level of the report), one or two reported procedures, another title
    opts = {'library': r.random() < 0.25, 'procedures': r.choice([1, 1, 2]), 'title': r.random() < 0.2}
    kw = {}
    if opts['library']:
        from gen import sources
        kw['referenced_images'] = sources.ct_series(r.choice([1, 2]), 4, 5)
    if opts['title']:
        kw['title'] = codes.cid7021.OncologyMeasurementReport
    procedures = [codes.LN.CTUnspecifiedBodyRegion, codes.cid100.MRIUnspecifiedBodyRegion][:opts['procedures']]
    rep = sr.MeasurementReport(observation_context=oc, procedure_reported=procedures if len(procedures) > 1 else procedures[0],
                               imaging_measurements=objs, **kw)
    pool['report_options'] = opts
    pool['library'] = kw.get('referenced_images', [])
    return rep, groups, pool


# ---------------------------------------------------------------- what the parameters say (no library involved)
REF_TYPE_OF = {'region2d': 'ImageRegion', 'region3d': 'ImageRegion', 'regions2d': 'ImageRegion',
               'segframe': 'ReferencedSegmentationFrame', 'segment': 'ReferencedSegment', 'surface': 'VolumeSurface',
               'region_in_space': 'RegionInSpace', 'images': None}


def referenced_instances(g):
    """(cls, inst) pairs a referenced-UID filter can match for this group (3-D coordinates carry none)."""
    ref = g['ref']
    t = ref['type']
    if t == 'region2d':
        return [ref['source']]
    if t == 'regions2d':
        return [s for _, s in ref['regions']]
    if t == 'segframe':
        return [ref['seg'], ref['source']]
    if t == 'segment':
        return [ref['seg']] + list(ref['sources'] or [])
    if t == 'region_in_space':
        return [ref['ref']]
    if t == 'images':
        return list(ref['sources'])
    return []


def all_references(g):
    """every instance referenced anywhere in the group (for the evidence list of a document)"""
    out = list(referenced_instances(g))
    if (g.get('context') or {}).get('rwvm'):
        out.append((RWV_CLASS, g['context']['rwvm']))
    for m in g['measurements']:
        out += list(m[3].get('images', []))
    if g['ref']['type'] == 'surface':
        out += list(g['ref']['sources'] or [])
    return out


RWV_CLASS = '1.2.840.10008.5.1.4.1.1.67'


def context_items(g):
    """(items right after the tracking UID, items after the finding sites) predicted from the optional context parameters"""
    def it(name, vt, rel, value='', ref=None):
        return {'name': name, 'vt': vt, 'rel': rel, 'value': value, 'graphic': '', 'ref': list(ref) if ref else None, 'kids': []}
    c = g.get('context') or {}
    a, b = [], []
    if c.get('session'):
        a.append(it('C67447|NCIt', 'TEXT', 'HAS OBS CONTEXT', c['session']))
    if c.get('algorithm'):
        nm, ver, params = c['algorithm']
        b.append(it('111001|DCM', 'TEXT', 'HAS CONCEPT MOD', nm))
        b.append(it('111003|DCM', 'TEXT', 'HAS CONCEPT MOD', ver))
        for x in params:
            b.append(it('111002|DCM', 'TEXT', 'HAS CONCEPT MOD', x))
    tp = c.get('time_point')
    if tp:
        b.append(it('C2348792|UMLS', 'TEXT', 'HAS OBS CONTEXT', tp['time_point']))
        if tp['type']:
            b.append(it('126072|DCM', 'CODE', 'HAS OBS CONTEXT', f"{tp['type'][0]}|{tp['type'][1]}"))
        if tp['order'] is not None:
            b.append(it('126073|DCM', 'NUM', 'HAS OBS CONTEXT', str(float(tp['order']))))
        if tp['subject']:
            b.append(it('126070|DCM', 'TEXT', 'HAS OBS CONTEXT', tp['subject']))
    if c.get('rwvm'):
        b.append(it('126100|DCM', 'COMPOSITE', 'CONTAINS', ref=(RWV_CLASS, c['rwvm'])))
    return a, b


def items_of(g):
    """The top-level content items of the group container predicted from the parameters:
    dict(name, vt, rel, value, graphic, ref, kids=[dict(name, vt, rel, ref)])."""
    def it(name, vt, rel, value='', graphic='', ref=None, kids=()):
        return {'name': name, 'vt': vt, 'rel': rel, 'value': value, 'graphic': graphic,
                'ref': list(ref) if ref else None, 'kids': list(kids), 'has_seq': bool(kids)}
    code = lambda c: f'{c[0]}|{c[1]}'   # noqa: E731
    out = [it('112039|DCM', 'TEXT', 'HAS OBS CONTEXT', g['tracking_id']),
           it('112040|DCM', 'UIDREF', 'HAS OBS CONTEXT', g['tracking_uid'])]
    ctx_a, ctx_b = context_items(g)
    out += ctx_a
    if g['finding_category']:
        out.append(it('276214006|SCT', 'CODE', 'CONTAINS', code(g['finding_category'])))
    if g['finding_type']:
        out.append(it('121071|DCM', 'CODE', 'CONTAINS', code(g['finding_type'])))
    if g['method']:
        out.append(it('370129005|SCT', 'CODE', 'CONTAINS', code(g['method'])))
    for s in g['finding_sites']:
        out.append(it('363698007|SCT', 'CODE', 'HAS CONCEPT MOD', code(s)))
    out += ctx_b
    for n, v, u, _x in g['measurements']:
        out.append(it(code(n), 'NUM', 'CONTAINS', str(v)))
    for n, v in g['evaluations']:
        out.append(it(code(n), 'CODE', 'CONTAINS', code(v)))
    if g['geometric_purpose']:
        out.append(it('130400|DCM', 'CODE', 'CONTAINS', code(g['geometric_purpose'])))
    ref = g['ref']
    t = ref['type']
    src_kid = lambda s: {'name': '260753009|SCT', 'vt': 'IMAGE', 'rel': 'SELECTED FROM', 'ref': list(s)}   # noqa: E731
    if t == 'region2d':
        out.append(it('111030|DCM', 'SCOORD', 'CONTAINS', graphic=ref['graphic'], kids=[src_kid(ref['source'])]))
    elif t == 'region3d':
        out.append(it('111030|DCM', 'SCOORD3D', 'CONTAINS', graphic=ref['graphic']))
    elif t == 'regions2d':
        for gr, s in ref['regions']:
            out.append(it('111030|DCM', 'SCOORD', 'CONTAINS', graphic=gr, kids=[src_kid(s)]))
    elif t == 'segframe':
        out.append(it('121214|DCM', 'IMAGE', 'CONTAINS', ref=ref['seg']))
        out.append(it('121233|DCM', 'IMAGE', 'CONTAINS', ref=ref['source']))
    elif t == 'segment':
        out.append(it('121191|DCM', 'IMAGE', 'CONTAINS', ref=ref['seg']))
        for s in ref['sources'] or []:
            out.append(it('121233|DCM', 'IMAGE', 'CONTAINS', ref=s))
        if ref['series']:
            out.append(it('121232|DCM', 'UIDREF', 'CONTAINS', ref['series']))
    elif t == 'surface':
        for _ in range(ref['n']):
            out.append(it('121231|DCM', 'SCOORD3D', 'CONTAINS', graphic=ref['graphic']))
        for s in ref['sources'] or []:
            out.append(it('121233|DCM', 'IMAGE', 'CONTAINS', ref=s))
        if ref['series']:
            out.append(it('121232|DCM', 'UIDREF', 'CONTAINS', ref['series']))
    elif t == 'region_in_space':
        out.append(it('130488|DCM', 'COMPOSITE', 'CONTAINS', ref=ref['ref']))
    elif t == 'images':
        for s in ref['sources']:
            out.append(it('260753009|SCT', 'IMAGE', 'CONTAINS', ref=s))
    tid = {'planar': '1410', 'volumetric': '1411', 'image': '1501'}[g['kind']] if g['template'] else None
    return {'template_id': tid, 'items': out}
