"""Synthetic source images for derived objects (plain pydicom Datasets with only the metadata the
library reads).  Call `hd_env.setup()` before importing highdicom.  API is shared by several
properties: keep it stable, extend additively.

    ct_series(n, rows, cols, ...)            list of single-frame CT-like datasets (one stack)
    enhanced_multiframe(n, rows, cols, ...)  one Enhanced-CT-like multi-frame dataset
    single_image_no_for(rows, cols)          a single image without frame of reference (CR-like)
    slide_image(total_rows, total_cols, tile_rows, tile_cols, ...)  tiled VL WSI-like image
    seg_description(n, ...)                  hd.seg.SegmentDescription
"""
from __future__ import annotations

import numpy as np
from pydicom.dataset import Dataset, FileMetaDataset
from pydicom.sequence import Sequence
from pydicom.uid import ExplicitVRLittleEndian, generate_uid

CT = '1.2.840.10008.5.1.4.1.1.2'
ENH_CT = '1.2.840.10008.5.1.4.1.1.2.1'
CR = '1.2.840.10008.5.1.4.1.1.1'
VL_WSI = '1.2.840.10008.5.1.4.1.1.77.1.6'


def _uid():
    return generate_uid(prefix=None)


def _common(ds, sop_class, study=None, series=None, modality='CT'):
    ds.file_meta = FileMetaDataset()
    ds.file_meta.TransferSyntaxUID = ExplicitVRLittleEndian
    ds.file_meta.MediaStorageSOPClassUID = sop_class
    ds.SOPClassUID = sop_class
    ds.SOPInstanceUID = _uid()
    ds.file_meta.MediaStorageSOPInstanceUID = ds.SOPInstanceUID
    ds.StudyInstanceUID = study or _uid()
    ds.SeriesInstanceUID = series or _uid()
    ds.PatientID = 'p1'
    ds.PatientName = 'Doe^Jane'
    ds.PatientBirthDate = '19700101'
    ds.PatientSex = 'O'
    ds.AccessionNumber = '1'
    ds.StudyID = '1'
    ds.StudyDate = '20200101'
    ds.StudyTime = '000000'
    ds.ReferringPhysicianName = ''
    ds.Modality = modality
    ds.Manufacturer = 'verif'
    ds.SeriesNumber = 1
    ds.InstanceNumber = 1
    return ds


def _pixels(ds, rows, cols, frames=1, bits=16, rng=None, samples=1, photometric='MONOCHROME2'):
    ds.Rows, ds.Columns = rows, cols
    ds.SamplesPerPixel = samples
    ds.PhotometricInterpretation = photometric
    ds.BitsAllocated = bits
    ds.BitsStored = bits
    ds.HighBit = bits - 1
    ds.PixelRepresentation = 0
    if samples > 1:
        ds.PlanarConfiguration = 0
    shape = (frames, rows, cols) + ((samples,) if samples > 1 else ())
    dt = {8: np.uint8, 16: np.uint16}[bits]
    if rng is None:
        arr = (np.arange(int(np.prod(shape))) % 251).astype(dt).reshape(shape)
    else:
        arr = rng.integers(0, 2 ** bits - 1, size=shape, dtype=np.int64).astype(dt)
    data = arr.tobytes()
    if len(data) % 2:
        data += b'\x00'
    ds.PixelData = data
    ds['PixelData'].VR = 'OW' if bits > 8 else 'OB'
    return arr


def ct_series(n, rows, cols, orientation=(1, 0, 0, 0, 1, 0), origin=(0.0, 0.0, 0.0), pixel_spacing=(1.0, 1.0),
              slice_spacing=1.0, study=None, series=None, frame_of_reference=None, order=None, rng=None):
    """n parallel single-frame images stacked along the right-handed normal of `orientation`, slice i at
    origin + i*slice_spacing*normal.  `order`: permutation of range(n) giving the list order."""
    study = study or _uid()
    series = series or _uid()
    fo = frame_of_reference or _uid()
    o = np.array(orientation, dtype=float)
    normal = np.cross(o[:3], o[3:])
    out = []
    for i in range(n):
        ds = _common(Dataset(), CT, study, series)
        ds.FrameOfReferenceUID = fo
        ds.ImageOrientationPatient = [float(x) for x in orientation]
        pos = np.array(origin, dtype=float) + i * slice_spacing * normal
        ds.ImagePositionPatient = [float(x) for x in pos]
        ds.PixelSpacing = [float(pixel_spacing[0]), float(pixel_spacing[1])]
        ds.SliceThickness = float(abs(slice_spacing))
        ds.InstanceNumber = i + 1
        ds.RescaleSlope = 1
        ds.RescaleIntercept = 0
        _pixels(ds, rows, cols, rng=rng)
        out.append(ds)
    if order is not None:
        out = [out[i] for i in order]
    return out


def single_image_no_for(rows, cols, rng=None):
    ds = _common(Dataset(), CR, modality='CR')
    _pixels(ds, rows, cols, rng=rng)
    ds.ImagerPixelSpacing = [1.0, 1.0]
    return ds


def enhanced_multiframe(n, rows, cols, orientation=(1, 0, 0, 0, 1, 0), origin=(0.0, 0.0, 0.0),
                        pixel_spacing=(1.0, 1.0), slice_spacing=1.0, order=None, rng=None):
    """Enhanced-CT-like multi-frame image: shared orientation + pixel measures, per-frame position."""
    ds = _common(Dataset(), ENH_CT)
    ds.FrameOfReferenceUID = _uid()
    ds.NumberOfFrames = n
    ds.ImageType = ['ORIGINAL', 'PRIMARY', 'VOLUME', 'NONE']
    o = np.array(orientation, dtype=float)
    normal = np.cross(o[:3], o[3:])
    sh = Dataset()
    po = Dataset()
    po.ImageOrientationPatient = [float(x) for x in orientation]
    sh.PlaneOrientationSequence = Sequence([po])
    pm = Dataset()
    pm.PixelSpacing = [float(pixel_spacing[0]), float(pixel_spacing[1])]
    pm.SliceThickness = float(abs(slice_spacing))
    pm.SpacingBetweenSlices = float(abs(slice_spacing))
    sh.PixelMeasuresSequence = Sequence([pm])
    ds.SharedFunctionalGroupsSequence = Sequence([sh])
    idx = list(range(n)) if order is None else list(order)
    pffg = []
    for k, i in enumerate(idx):
        it = Dataset()
        pp = Dataset()
        pos = np.array(origin, dtype=float) + i * slice_spacing * normal
        pp.ImagePositionPatient = [float(x) for x in pos]
        it.PlanePositionSequence = Sequence([pp])
        fc = Dataset()
        fc.DimensionIndexValues = [1, i + 1]
        fc.InStackPositionNumber = i + 1
        fc.StackID = '1'
        it.FrameContentSequence = Sequence([fc])
        pffg.append(it)
    ds.PerFrameFunctionalGroupsSequence = Sequence(pffg)
    dim_org = _uid()
    do = Dataset()
    do.DimensionOrganizationUID = dim_org
    ds.DimensionOrganizationSequence = Sequence([do])
    d1 = Dataset()
    d1.DimensionOrganizationUID = dim_org
    d1.DimensionIndexPointer = 0x00209056   # StackID
    d1.FunctionalGroupPointer = 0x00209111  # FrameContentSequence
    d2 = Dataset()
    d2.DimensionOrganizationUID = dim_org
    d2.DimensionIndexPointer = 0x00209057   # InStackPositionNumber
    d2.FunctionalGroupPointer = 0x00209111
    ds.DimensionIndexSequence = Sequence([d1, d2])
    _pixels(ds, rows, cols, frames=n, rng=rng)
    return ds


def slide_image(total_rows, total_cols, tile_rows, tile_cols, tiled_full=False, samples=1, bits=8,
                origin=(0.0, 0.0, 0.0), pixel_spacing=(0.5, 0.5), orientation=(0, -1, 0, -1, 0, 0),
                rng=None, omit=(), frame_order=None):
    """Tiled VL-WSI-like image.  Returns (dataset, total_pixel_matrix array).  TILED_SPARSE stores explicit
    per-frame tile positions (optionally omitting tiles in `omit` (list of (tile_row, tile_col)) and in
    `frame_order`); TILED_FULL implies them by frame order."""
    from highdicom.spatial import ImageToReferenceTransformer  # noqa: F401  (import check only)
    ds = _common(Dataset(), VL_WSI, modality='SM')
    ds.FrameOfReferenceUID = _uid()
    ds.ImageType = ['ORIGINAL', 'PRIMARY', 'VOLUME', 'NONE']
    ds.TotalPixelMatrixRows = total_rows
    ds.TotalPixelMatrixColumns = total_cols
    ds.ImageOrientationSlide = [float(x) for x in orientation]
    org = Dataset()
    org.XOffsetInSlideCoordinateSystem = float(origin[0])
    org.YOffsetInSlideCoordinateSystem = float(origin[1])
    ds.TotalPixelMatrixOriginSequence = Sequence([org])
    ds.ImagedVolumeWidth = float(total_cols * pixel_spacing[1])
    ds.ImagedVolumeHeight = float(total_rows * pixel_spacing[0])
    ds.ImagedVolumeDepth = 1.0
    ds.ContainerIdentifier = 'c1'
    ds.IssuerOfTheContainerIdentifierSequence = Sequence([])
    ds.ContainerTypeCodeSequence = Sequence([])
    ds.SpecimenDescriptionSequence = Sequence([])
    ds.NumberOfOpticalPaths = 1
    ds.TotalPixelMatrixFocalPlanes = 1
    op = Dataset()
    op.OpticalPathIdentifier = '1'
    ds.OpticalPathSequence = Sequence([op])
    sh = Dataset()
    pm = Dataset()
    pm.PixelSpacing = [float(pixel_spacing[0]), float(pixel_spacing[1])]
    pm.SliceThickness = 1.0
    sh.PixelMeasuresSequence = Sequence([pm])
    ds.SharedFunctionalGroupsSequence = Sequence([sh])
    dt = {8: np.uint8, 16: np.uint16}[bits]
    shape = (total_rows, total_cols) + ((samples,) if samples > 1 else ())
    if rng is None:
        tpm = ((np.arange(int(np.prod(shape))) * 7 + 1) % 251).astype(dt).reshape(shape)
    else:
        tpm = rng.integers(1, 2 ** bits - 1, size=shape, dtype=np.int64).astype(dt)
    nth = -(-total_rows // tile_rows)
    ntw = -(-total_cols // tile_cols)
    tiles = [(r, c) for r in range(nth) for c in range(ntw)]
    if not tiled_full:
        tiles = [t for t in tiles if t not in set(omit)]
        if frame_order is not None:
            tiles = [tiles[i] for i in frame_order]
    frames = []
    pffg = []
    o = np.array(orientation, dtype=float)
    for (r, c) in tiles:
        tile = np.zeros((tile_rows, tile_cols) + ((samples,) if samples > 1 else ()), dtype=dt)
        sub = tpm[r * tile_rows:(r + 1) * tile_rows, c * tile_cols:(c + 1) * tile_cols]
        tile[:sub.shape[0], :sub.shape[1]] = sub
        frames.append(tile)
        if not tiled_full:
            it = Dataset()
            pp = Dataset()
            pp.RowPositionInTotalImagePixelMatrix = r * tile_rows + 1
            pp.ColumnPositionInTotalImagePixelMatrix = c * tile_cols + 1
            xyz = (np.array([origin[0], origin[1], origin[2]], dtype=float)
                   + (c * tile_cols) * pixel_spacing[1] * o[:3] + (r * tile_rows) * pixel_spacing[0] * o[3:])
            pp.XOffsetInSlideCoordinateSystem = float(xyz[0])
            pp.YOffsetInSlideCoordinateSystem = float(xyz[1])
            pp.ZOffsetInSlideCoordinateSystem = float(xyz[2])
            it.PlanePositionSlideSequence = Sequence([pp])
            fc = Dataset()
            fc.DimensionIndexValues = [c * tile_cols + 1, r * tile_rows + 1]
            it.FrameContentSequence = Sequence([fc])
            pffg.append(it)
    ds.NumberOfFrames = len(frames)
    ds.DimensionOrganizationType = 'TILED_FULL' if tiled_full else 'TILED_SPARSE'
    if not tiled_full:
        ds.PerFrameFunctionalGroupsSequence = Sequence(pffg)
        dim_org = _uid()
        do = Dataset()
        do.DimensionOrganizationUID = dim_org
        ds.DimensionOrganizationSequence = Sequence([do])
        d1 = Dataset()
        d1.DimensionOrganizationUID = dim_org
        d1.DimensionIndexPointer = 0x0048021E   # ColumnPositionInTotalImagePixelMatrix
        d1.FunctionalGroupPointer = 0x0048021A  # PlanePositionSlideSequence
        d2 = Dataset()
        d2.DimensionOrganizationUID = dim_org
        d2.DimensionIndexPointer = 0x0048021F   # RowPositionInTotalImagePixelMatrix
        d2.FunctionalGroupPointer = 0x0048021A
        ds.DimensionIndexSequence = Sequence([d1, d2])
    ds.Rows, ds.Columns = tile_rows, tile_cols
    ds.SamplesPerPixel = samples
    ds.PhotometricInterpretation = 'RGB' if samples == 3 else 'MONOCHROME2'
    if samples > 1:
        ds.PlanarConfiguration = 0
    ds.BitsAllocated = bits
    ds.BitsStored = bits
    ds.HighBit = bits - 1
    ds.PixelRepresentation = 0
    data = np.stack(frames).tobytes() if frames else b''
    if len(data) % 2:
        data += b'\x00'
    ds.PixelData = data
    ds['PixelData'].VR = 'OW' if bits > 8 else 'OB'
    return ds, tpm


def seg_description(n, label=None, tracking=False, algorithm_type='MANUAL', category=None, prop_type=None):
    import highdicom as hd
    from pydicom.sr.codedict import codes
    kw = {}
    if tracking:
        kw['tracking_id'] = f't{n}'
        kw['tracking_uid'] = hd.UID()
    return hd.seg.SegmentDescription(
        segment_number=n, segment_label=label or f'segment {n}',
        segmented_property_category=category or codes.SCT.Tissue,
        segmented_property_type=prop_type or codes.SCT.Tissue,
        algorithm_type=algorithm_type, **kw)
