"""Synthetic images (plain pydicom datasets) for the correspondence checks."""
from __future__ import annotations

import io

import numpy as np
from pydicom.dataset import Dataset, FileMetaDataset
from pydicom.encaps import encapsulate, encapsulate_extended
from pydicom.pixels.utils import pack_bits
from pydicom.uid import (ExplicitVRLittleEndian, ImplicitVRLittleEndian,
                         JPEGLSLossless, RLELossless, generate_uid)

MF_SC_BIT = '1.2.840.10008.5.1.4.1.1.7.1'     # Multi-frame Single Bit SC
MF_SC_BYTE = '1.2.840.10008.5.1.4.1.1.7.2'    # Multi-frame Grayscale Byte SC
MF_SC_WORD = '1.2.840.10008.5.1.4.1.1.7.3'    # Multi-frame Grayscale Word SC
MF_SC_COLOR = '1.2.840.10008.5.1.4.1.1.7.4'   # Multi-frame True Color SC
SEG = '1.2.840.10008.5.1.4.1.1.66.4'
PMAP = '1.2.840.10008.5.1.4.1.1.30'


def base_dataset(sop_class, tsuid):
    ds = Dataset()
    ds.file_meta = FileMetaDataset()
    ds.file_meta.TransferSyntaxUID = tsuid
    ds.file_meta.MediaStorageSOPClassUID = sop_class
    ds.SOPClassUID = sop_class
    ds.SOPInstanceUID = generate_uid(prefix=None)
    ds.file_meta.MediaStorageSOPInstanceUID = ds.SOPInstanceUID
    ds.StudyInstanceUID = generate_uid(prefix=None)
    ds.SeriesInstanceUID = generate_uid(prefix=None)
    ds.PatientID = 'p'
    ds.PatientName = 'a^b'
    ds.PatientBirthDate = '19700101'
    ds.PatientSex = 'O'
    ds.StudyDate = '20200101'
    ds.StudyTime = '000000'
    ds.StudyID = '1'
    ds.AccessionNumber = '1'
    ds.ReferringPhysicianName = ''
    ds.Modality = 'OT'
    ds.SeriesNumber = 1
    ds.InstanceNumber = 1
    ds.Manufacturer = 'm'
    return ds


def multiframe_image(frames: np.ndarray, bits: int, tsuid=ExplicitVRLittleEndian, signed=False,
                     offset_table='basic', photometric=None, planar=0):
    """frames: (N, R, C) or (N, R, C, 3).  bits in {1, 8, 16, 32}.  Returns a pydicom Dataset with
    file_meta set; pixel data native or encapsulated (RLE / JPEG-LS via highdicom-independent pydicom
    encoders)."""
    n, r, c = frames.shape[:3]
    samples = frames.shape[3] if frames.ndim == 4 else 1
    sop = {1: MF_SC_BIT, 8: MF_SC_BYTE, 16: MF_SC_WORD, 32: MF_SC_WORD}[bits]
    if samples == 3:
        sop = MF_SC_COLOR
    ds = base_dataset(sop, tsuid)
    ds.NumberOfFrames = n
    ds.Rows, ds.Columns = r, c
    ds.SamplesPerPixel = samples
    ds.PhotometricInterpretation = photometric or ('RGB' if samples == 3 else 'MONOCHROME2')
    if samples == 3:
        ds.PlanarConfiguration = planar
    ds.BitsAllocated = bits
    ds.BitsStored = bits
    ds.HighBit = bits - 1
    ds.PixelRepresentation = 1 if signed else 0
    if bits == 1:
        flat = frames.astype(np.uint8).reshape(-1)
        data = pack_bits(flat, pad=True)
        ds.PixelData = data
    else:
        dt = {8: 'i1' if signed else 'u1', 16: '<i2' if signed else '<u2', 32: '<i4' if signed else '<u4'}[bits]
        arr = frames.astype(dt)
        if samples == 3 and planar == 1:
            arr = np.moveaxis(arr, 3, 1)
        if tsuid in (ExplicitVRLittleEndian, ImplicitVRLittleEndian):
            data = arr.tobytes()
            if len(data) % 2:
                data += b'\x00'
            ds.PixelData = data
        else:
            from pydicom.pixels import get_encoder  # noqa: F401
            enc_frames = []
            for i in range(n):
                one = Dataset()
                one.file_meta = FileMetaDataset()
                one.file_meta.TransferSyntaxUID = ExplicitVRLittleEndian
                one.Rows, one.Columns, one.SamplesPerPixel = r, c, samples
                one.PhotometricInterpretation = ds.PhotometricInterpretation
                one.BitsAllocated, one.BitsStored, one.HighBit = bits, bits, bits - 1
                one.PixelRepresentation = ds.PixelRepresentation
                if samples == 3:
                    one.PlanarConfiguration = 0
                fr = frames[i].astype(dt)
                one.PixelData = fr.tobytes() + (b'\x00' if fr.nbytes % 2 else b'')
                one.compress(tsuid, encoding_plugin='pylibjpeg' if tsuid == RLELossless and False else None)
                from pydicom.encaps import generate_frames
                enc_frames.append(next(generate_frames(one.PixelData, number_of_frames=1)))
            if samples == 3:
                ds.PlanarConfiguration = 0 if tsuid != RLELossless else 1
            if offset_table == 'extended':
                out = encapsulate_extended(enc_frames)
                ds.PixelData, ds.ExtendedOffsetTable, ds.ExtendedOffsetTableLengths = out
            elif offset_table == 'none':
                ds.PixelData = encapsulate(enc_frames, has_bot=False)
            else:
                ds.PixelData = encapsulate(enc_frames, has_bot=True)
    ds['PixelData'].VR = 'OB' if (bits <= 8 or tsuid not in (ExplicitVRLittleEndian, ImplicitVRLittleEndian)) else 'OW'
    return ds


def to_bytes(ds) -> bytes:
    bio = io.BytesIO()
    ds.save_as(bio, enforce_file_format=True)
    return bio.getvalue()
