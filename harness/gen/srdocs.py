"""Generators for SR documents (C15): instance pools, evidence lists and random content trees.

Every generator returns the real highdicom/pydicom object TOGETHER with a plain-Python *spec* recorded at
construction time (the construction parameters); oracles are evaluated over the spec, never over what the
library later reports.  All UIDs are deterministic functions of the PRNG handed in.

    instance_pool(r)                 -> list of dict(study, series, inst, cls, ds)
    content_tree(r, pool, ...)       -> (root ContainerContentItem, spec)
    evidence_list(r, pool, refs,...) -> (list of datasets, mode string)

spec of an item: {'id': n, 'vt': 'IMAGE', 'name': (value, scheme[, version]), 'rel': 'CONTAINS'|None,
                  'ref': (cls, inst)|None, 'has_seq': bool, 'children': [spec, ...],
                  'codes': [(role, form, {keyword: stored string})]  role = name|value|unit|qualifier, form in CODE_FORMS}
content_tree(..., code_rng=<PRNG>) draws every coded name / value / unit / qualifier in one of CODE_FORMS (scheme version, long
code value > 16 characters, URN code value, context group attributes); without it all codes are plain (as before).
"""
from __future__ import annotations

import numpy as np
from pydicom.dataset import Dataset

ROOT = '1.2.826.0.1.3680043.8.498'
CLASSES = {
    'CT': '1.2.840.10008.5.1.4.1.1.2',
    'MR': '1.2.840.10008.5.1.4.1.1.4',
    'SEG': '1.2.840.10008.5.1.4.1.1.66.4',
    'RWV': '1.2.840.10008.5.1.4.1.1.67',
    'SM': '1.2.840.10008.5.1.4.1.1.77.1.6',
    'PR': '1.2.840.10008.5.1.4.1.1.11.1',
}
IMAGE_CLASSES = ['CT', 'MR', 'SM', 'SEG']
COMPOSITE_CLASSES = ['RWV', 'PR', 'SEG']


def uid(r, *parts):
    return ROOT + '.' + str(r.randrange(1, 10 ** 9)) + ''.join('.' + str(p) for p in parts)


def evidence_dataset(study, series, inst, cls, modality='CT', image=True):
    d = Dataset()
    d.StudyInstanceUID = study
    d.SeriesInstanceUID = series
    d.SOPInstanceUID = inst
    d.SOPClassUID = cls
    d.PatientID = 'p1'
    d.PatientName = 'Doe^Jane'
    d.PatientBirthDate = '19700101'
    d.PatientSex = 'O'
    d.AccessionNumber = '1'
    d.StudyID = '1'
    d.StudyDate = '20200101'
    d.StudyTime = '000000'
    d.ReferringPhysicianName = ''
    d.Modality = modality
    if image:
        d.Rows = 4
        d.Columns = 4
        d.SamplesPerPixel = 1
        d.PixelRepresentation = 0
    return d


def instance_pool(r, max_studies=3, max_series=3, max_instances=4):
    """Instances spread over several studies/series (series UIDs unique per study; the same series
    position index is reused across studies so grouping by series alone would be wrong)."""
    pool = []
    base = uid(r)
    n_st = r.choice([1, 1, 2, 2, 3][:2 + max_studies])
    for s in range(1, n_st + 1):
        study = f'{base}.{s}'
        for t in range(1, r.randint(1, max_series) + 1):
            series = f'{base}.{s}.{t}'
            kind = r.choice(['CT', 'CT', 'MR', 'SM', 'SEG', 'RWV', 'PR'])
            for k in range(1, r.randint(1, max_instances) + 1):
                inst = f'{base}.{s}.{t}.{k}'
                cls = CLASSES[kind]
                image = kind in IMAGE_CLASSES
                pool.append({'study': study, 'series': series, 'inst': inst, 'cls': cls, 'kind': kind, 'image': image,
                             'ds': evidence_dataset(study, series, inst, cls, modality=kind if kind != 'RWV' else 'RWV',
                                                    image=image)})
    return pool


_NAMES = [('121071', 'DCM', 'Finding'), ('121070', 'DCM', 'Findings'), ('111001', 'DCM', 'Algorithm Name'),
          ('112039', 'DCM', 'Tracking Identifier'), ('260753009', 'SCT', 'Source'), ('111030', 'DCM', 'Image Region'),
          ('121214', 'DCM', 'Referenced Segmentation Frame'), ('126100', 'DCM', 'Real World Value Map used for measurement'),
          ('125007', 'DCM', 'Measurement Group'), ('126010', 'DCM', 'Imaging Measurements')]
_RELS = ['CONTAINS', 'HAS OBS CONTEXT', 'HAS CONCEPT MOD', 'HAS PROPERTIES', 'INFERRED FROM', 'HAS ACQ CONTEXT']


CODE_FORMS = ['plain', 'version', 'long', 'long+version', 'urn', 'urn+version', 'context']
_LONG = ['12345678901234567', 'T-A0100-AND-SOMETHING-LONGER', '99999999999999999999.1']        # 17, 28, 22 characters (> 16)
_URN = ['urn:oid:1.2.826.0.1.3680043.8.498.77', 'http://example.org/codes#finding-7', 'urn:uuid:6e8bc430-9c3a-11d9-9669-0800200c9a66']
_VERS = ['2020', '4.1', '23.04d', '20200101', '01']


def coded(cr, base, form=None, role='name'):
    """A CodedConcept in one of CODE_FORMS built on the (value, designator, meaning) triple `base`; returns (concept, stored)
    where `stored` is the plain dict keyword -> string of every attribute the code sequence item must carry from now on
    (construction parameters; the oracle compares the stored attributes of every code sequence item with it)."""
    from highdicom.sr import CodedConcept
    v, s, m = base
    if form is None:
        form = 'plain' if cr is None else cr.choice(['plain'] * 6 + CODE_FORMS[1:])
    ver = None
    if form.startswith('long'):
        v, s = (cr.choice(_LONG) if cr is not None else _LONG[0]), '99VERIF'
    elif form.startswith('urn'):
        v, s = (cr.choice(_URN) if cr is not None else _URN[0]), '99VERIF'
    if form.endswith('version'):
        ver = cr.choice(_VERS) if cr is not None else _VERS[0]
    c = CodedConcept(value=v, scheme_designator=s, meaning=m, scheme_version=ver)
    kw = 'LongCodeValue' if form.startswith('long') else 'URNCodeValue' if form.startswith('urn') else 'CodeValue'
    stored = {kw: v, 'CodingSchemeDesignator': s, 'CodeMeaning': m}
    if ver is not None:
        stored['CodingSchemeVersion'] = ver
    if form == 'context':
        # attributes of the enhanced encoding mode / context group identification: part of the code sequence item as well
        c.ContextIdentifier = '4'
        c.MappingResource = 'DCMR'
        c.ContextGroupVersion = '20200101'
        stored.update(ContextIdentifier='4', MappingResource='DCMR', ContextGroupVersion='20200101')
    return c, stored, form


def _name(r, cr=None, rec=None):
    """coded name; with a code PRNG `cr` in any of CODE_FORMS.  spec name = (value, designator[, version]): the version is
    part of a code's identity (pydicom Code equality), so it is part of what a name query has to match."""
    v, s, m = r.choice(_NAMES)
    c, stored, form = coded(cr, (v, s, m))
    if rec is not None:
        rec.append(('name', form, stored))
    nm = (stored.get('CodeValue') or stored.get('LongCodeValue') or stored.get('URNCodeValue'), stored['CodingSchemeDesignator'])
    if 'CodingSchemeVersion' in stored:
        nm += (stored['CodingSchemeVersion'],)
    return c, nm


class _Ids:
    def __init__(self):
        self.n = 0

    def next(self):
        self.n += 1
        return self.n


def _leaf(r, pool, ids, rel, opts):
    """One non-container item (may itself carry children: SCOORD -> SELECTED FROM image, NUM -> INFERRED FROM image)."""
    from highdicom import sr
    from pydicom.sr.codedict import codes
    cr = opts.get('code_rng')
    rec = []
    name, nm = _name(r, cr, rec)

    def code_of(c, role):
        """the pydicom Code `c`, or (with a code PRNG) the same concept in one of CODE_FORMS"""
        if cr is None:
            return c
        cc, stored, form = coded(cr, (c.value, c.scheme_designator, c.meaning))
        rec.append((role, form, stored))
        return cc
    kinds = ['TEXT', 'CODE', 'NUM', 'NUM', 'UIDREF', 'IMAGE', 'IMAGE', 'COMPOSITE', 'SCOORD', 'PNAME', 'DATE', 'TIME', 'DATETIME',
             'TCOORD', 'WAVEFORM']
    if opts.get('scoord3d'):
        kinds += ['SCOORD3D'] * opts.get('scoord3d_weight', 1)
    vt = r.choice(kinds)
    spec = {'id': ids.next(), 'vt': vt, 'name': nm, 'rel': rel, 'ref': None, 'has_seq': False, 'children': [], 'codes': rec}

    def pick(image):
        """instance to reference: usually from the pool (repeats likely), sometimes not supplied anywhere"""
        cands = [p for p in pool if p['image'] == image] or pool
        if opts.get('foreign') and r.random() < opts['foreign']:
            return CLASSES['CT' if image else 'PR'], uid(r, 'foreign')
        p = r.choice(cands)
        return p['cls'], p['inst']

    if vt == 'TEXT':
        # text values with significant white space (leading blanks, several lines): a parser must not tidy them up
        tv = {1: f'   indented text {spec["id"]}', 2: f'line one\r\nline two {spec["id"]}'}.get(spec['id'] % 4, f'text {spec["id"]}')
        it = sr.TextContentItem(name=name, value=tv, relationship_type=rel)
    elif vt == 'CODE':
        it = sr.CodeContentItem(name=name, value=code_of(codes.SCT.Liver if r.random() < 0.5 else codes.SCT.Kidney, 'value'),
                                relationship_type=rel)
    elif vt == 'NUM':
        # every optional argument: a qualifier code that differs from the unit code
        qual = r.choice([None, codes.DCM.NotANumber if hasattr(codes.DCM, 'NotANumber') else codes.SCT.Liver,
                         sr.CodedConcept(value='114006', scheme_designator='DCM', meaning='Measurement failure')])
        unit = code_of(r.choice([codes.UCUM.Millimeter, codes.UCUM.Centimeter]), 'unit')
        if qual is not None:
            qual = code_of(qual, 'qualifier')
        it = sr.NumContentItem(name=name, value=r.randint(-50, 50) / 4, unit=unit, qualifier=qual, relationship_type=rel)
    elif vt == 'TIME':
        it = sr.TimeContentItem(name=name, value='1%d3000' % r.randint(0, 9), relationship_type=rel)
    elif vt == 'DATETIME':
        it = sr.DateTimeContentItem(name=name, value='202001021%d3000' % r.randint(0, 9), relationship_type=rel)
    elif vt == 'TCOORD':
        kind = r.choice(['samples', 'offsets', 'datetimes'])
        import datetime
        it = sr.TcoordContentItem(
            name=name, temporal_range_type=r.choice(['POINT', 'MULTIPOINT', 'SEGMENT']),
            referenced_sample_positions=[1, 5] if kind == 'samples' else None,
            referenced_time_offsets=[0.5, 2.0] if kind == 'offsets' else None,
            referenced_date_time=[datetime.datetime(2020, 1, 2, 3, 4, 5), datetime.datetime(2020, 1, 2, 3, 5, 5)] if kind == 'datetimes' else None,
            relationship_type=rel)
    elif vt == 'WAVEFORM':
        # references an instance, but is neither IMAGE nor COMPOSITE: no evidence is demanded for it
        it = sr.WaveformContentItem(name=name, referenced_sop_class_uid='1.2.840.10008.5.1.4.1.1.9.1.1',
                                    referenced_sop_instance_uid=uid(r, 'wave'),
                                    referenced_waveform_channels=r.choice([None, [(1, 1), (1, 2)]]), relationship_type=rel)
    elif vt == 'UIDREF':
        # a UID that equals a pool instance must NOT count as a reference
        it = sr.UIDRefContentItem(name=name, value=r.choice(pool)['inst'], relationship_type=rel)
    elif vt == 'PNAME':
        it = sr.PnameContentItem(name=name, value='Doe^John', relationship_type=rel)
    elif vt == 'DATE':
        it = sr.DateContentItem(name=name, value='20200102', relationship_type=rel)
    elif vt == 'IMAGE':
        cls, inst = pick(True)
        fr = sg = None
        u = r.random()
        if u < 0.3:
            fr = sorted(r.sample(range(1, 9), r.randint(1, 3)))
        elif u < 0.45:
            sg = sorted(r.sample(range(1, 5), r.randint(1, 2)))
        it = sr.ImageContentItem(name=name, referenced_sop_class_uid=cls, referenced_sop_instance_uid=inst,
                                 referenced_frame_numbers=fr, referenced_segment_numbers=sg, relationship_type=rel)
        spec['ref'] = (cls, inst)
    elif vt == 'COMPOSITE':
        cls, inst = pick(False)
        it = sr.CompositeContentItem(name=name, referenced_sop_class_uid=cls, referenced_sop_instance_uid=inst,
                                     relationship_type=rel)
        spec['ref'] = (cls, inst)
    elif vt == 'SCOORD':
        gt = r.choice(['POINT', 'POLYLINE', 'CIRCLE'])
        n = {'POINT': 1, 'POLYLINE': 3, 'CIRCLE': 2}[gt]
        data = np.array([[r.randint(0, 40) / 2, r.randint(0, 40) / 2] for _ in range(n)])
        it = sr.ScoordContentItem(name=name, graphic_type=gt, graphic_data=data,
                                  pixel_origin_interpretation=r.choice([None, 'VOLUME', 'FRAME']),
                                  fiducial_uid=r.choice([None, uid(r, 'fid')]), relationship_type=rel)
        # reference nested below a non-container item
        cls, inst = pick(True)
        crec = []
        cname, cnm = _name(r, cr, crec)
        child = sr.ImageContentItem(name=cname, referenced_sop_class_uid=cls, referenced_sop_instance_uid=inst,
                                    relationship_type='SELECTED FROM')
        cspec = {'id': ids.next(), 'vt': 'IMAGE', 'name': cnm, 'rel': 'SELECTED FROM', 'ref': (cls, inst),
                 'has_seq': False, 'children': [], 'codes': crec}
        it.ContentSequence = sr.ContentSequence([child])
        spec['has_seq'] = True
        spec['children'] = [cspec]
    elif vt == 'SCOORD3D':
        gt = r.choice(['POINT', 'POLYLINE'])
        n = {'POINT': 1, 'POLYLINE': 3}[gt]
        data = np.array([[r.randint(0, 40) / 2, r.randint(0, 40) / 2, r.randint(0, 40) / 2] for _ in range(n)])
        it = sr.Scoord3DContentItem(name=name, graphic_type=gt, graphic_data=data,
                                    frame_of_reference_uid=uid(r, 'for'), fiducial_uid=r.choice([None, uid(r, 'fid')]),
                                    relationship_type=rel)
    else:  # pragma: no cover
        raise AssertionError(vt)
    if vt in ('NUM', 'TEXT', 'CODE', 'IMAGE') and opts.get('leaf_children', 0) > 0 and r.random() < 0.2:
        # content below a NON-container item (e.g. NUM inferred from an image or 3-D coordinates): "any depth" is not
        # "any depth of containers"
        o2 = dict(opts)
        o2['leaf_children'] = opts['leaf_children'] - 1
        kids = sr.ContentSequence()
        for _ in range(r.choice([1, 1, 2])):
            c, cs = _leaf(r, pool, ids, r.choice(['INFERRED FROM', 'HAS PROPERTIES', 'HAS CONCEPT MOD']), o2)
            kids.append(c)
            spec['children'].append(cs)
        it.ContentSequence = kids
        spec['has_seq'] = True
    return it, spec


def _container(r, pool, ids, rel, depth, opts):
    from highdicom import sr
    rec = []
    name, nm = _name(r, opts.get('code_rng'), rec)
    # template identification and continuity vary (roots: any template incl. TID 1500, which takes the
    # MeasurementReport branch of the parser; nested: group templates, private ids)
    if rel is None:
        tid = r.choice([None, None, '2000', '1500', '2010', '9999'])
    else:
        tid = r.choice([None, None, None, '1410', '1501', '300'])
    it = sr.ContainerContentItem(name=name, relationship_type=rel, template_id=tid,
                                 is_content_continuous=r.random() < 0.7)
    attrs = ['ValueType', 'ConceptNameCodeSequence', 'ContinuityOfContent'] + (['ContentTemplateSequence'] if tid else [])
    if r.random() < 0.25:
        # optional attributes of the Document Relationship Macro, on the root as on any other item
        it.ObservationDateTime = '2020010112%02d00' % r.randint(0, 59)
        attrs.append('ObservationDateTime')
        if r.random() < 0.5:
            it.ObservationUID = uid(r, 'obs')
            attrs.append('ObservationUID')
    spec = {'id': ids.next(), 'vt': 'CONTAINER', 'name': nm, 'rel': rel, 'ref': None, 'has_seq': False, 'children': [],
            'attrs': attrs, 'codes': rec}
    fan = r.choice(opts.get('fanouts', [0, 1, 2, 2, 3, 3, 4, 5]))
    if rel is None and fan == 0 and not opts.get('allow_empty_root'):
        fan = 1
    if fan == 0 and r.random() < 0.5:
        # container carrying an EMPTY content sequence (attribute present, no items)
        it.ContentSequence = sr.ContentSequence()
        spec['has_seq'] = True
        return it, spec
    if fan == 0:
        return it, spec
    seq = sr.ContentSequence()
    for _ in range(fan):
        crel = r.choice(_RELS)
        if depth > 0 and r.random() < opts.get('nest', 0.4):
            c, cs = _container(r, pool, ids, crel, depth - 1, opts)
        else:
            c, cs = _leaf(r, pool, ids, crel, opts)
        seq.append(c)
        spec['children'].append(cs)
    it.ContentSequence = seq
    spec['has_seq'] = True
    return it, spec


def content_tree(r, pool, depth=3, scoord3d=False, foreign=0.0, **opts):
    """Random content tree.  Returns (root item, spec)."""
    o = dict(opts)
    o['scoord3d'] = scoord3d
    o['foreign'] = foreign
    o.setdefault('leaf_children', 2)
    ids = _Ids()
    return _container(r, pool, ids, None, depth, o)


def walk(spec):
    yield spec
    for c in spec['children']:
        yield from walk(c)


def descendants(spec):
    """proper descendants in document (pre-)order"""
    for c in spec['children']:
        yield from walk(c)


def referenced(spec):
    """(cls, inst) of every IMAGE/COMPOSITE item below the root, document order, repeats kept"""
    return [s['ref'] for s in descendants(spec) if s['vt'] in ('IMAGE', 'COMPOSITE')]


def evidence_list(r, pool, refs, mode=None):
    """Evidence list relative to the referenced instance UIDs `refs`.
    modes: exact | superset | subset (strictly misses a referenced, supplied-able instance) | all ; plus duplicates/shuffle."""
    ref_uids = []
    for _, i in refs:
        if i not in ref_uids:
            ref_uids.append(i)
    by_inst = {p['inst']: p for p in pool}
    in_pool = [u for u in ref_uids if u in by_inst]
    others = [p['inst'] for p in pool if p['inst'] not in ref_uids]
    mode = mode or r.choice(['exact', 'superset', 'superset', 'superset', 'all', 'all', 'subset'])
    if mode == 'subset' and not in_pool:
        mode = 'superset'
    if mode == 'exact':
        sel = list(in_pool)
    elif mode == 'superset':
        sel = list(in_pool) + r.sample(others, r.randint(0, len(others)))
    elif mode == 'all':
        sel = [p['inst'] for p in pool]
    else:
        drop = r.choice(in_pool)
        sel = [u for u in in_pool if u != drop] + r.sample(others, r.randint(0, len(others)))
    if not sel:
        sel = [r.choice(pool)['inst']]
        mode += '+filler'
    r.shuffle(sel)
    if r.random() < 0.4:
        # duplicates (the same dataset object and a distinct equal copy)
        for _ in range(r.randint(1, 3)):
            sel.insert(r.randrange(len(sel) + 1), r.choice(sel))
        mode += '+dup'
    out = [by_inst[u]['ds'] for u in sel]
    if out and r.random() < 0.12:
        # the same SOP instance UID supplied again under ANOTHER series (conflicting duplicate): the first one counts
        import copy
        k = r.randrange(len(out))
        twin = copy.deepcopy(out[k])
        twin.SeriesInstanceUID = str(twin.SeriesInstanceUID) + '.77'
        out.insert(r.randrange(k + 1, len(out) + 1), twin)
        mode += '+conflict'
    return out, mode
